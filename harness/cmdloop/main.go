// Harness cmdloop decides the schedule- and map-order-exhaustive part of C03:
// the real command functions of package rare/cmd (histogram, table, heatmap,
// sparkline, bargraph, analyze, reduce) run in-process, compiled onto the
// controlled runtime, over small inputs on the virtual file system. For each
// command every schedule with at most B deviations (preemptions, render-timer
// firings, map iteration orders) and every tuning variant (workers, batch,
// readers, order of file arguments, division of the same lines among files)
// must produce byte-identical final results (snapshot stdout without the
// transfer-rate status line, CSV export, exit status). The baseline they are
// compared with is the sequential default-schedule run; its correctness
// against an independent reference is the job of the cligrid harness.
package main

import (
	"encoding/json"
	"fmt"
	"os"
	"path/filepath"
	"strings"
	"time"

	"rare/cmd"
	"rare/pkg/color"
	"rare/pkg/logger"
	vrt "rare/verifrt"
	"rare/verifrt/vos"
	"verif/mc"
	"verif/runner"

	"github.com/urfave/cli/v2"
)

type Variant struct {
	Workers int      `json:"workers"`
	Batch   int      `json:"batch"`
	Readers int      `json:"readers"`
	Files   []string `json:"files"` // contents, in argument order
}

type Config struct {
	Name    string   `json:"name"`
	Args    []string `json:"args"` // command and its flags (without tuning flags, csv and inputs)
	CSV     bool     `json:"csv"`
	Ordered bool     `json:"ordered"` // order-sensitive accumulator: only one reader and one worker
	Variant Variant  `json:"variant"`
	Bound   int      `json:"bound"`
}

type result struct {
	Stdout string `json:"stdout"`
	CSV    string `json:"csv"`
	Exit   int    `json:"exit"`
	Err    string `json:"err,omitempty"`
}

var (
	tmpDir  string
	outFile *os.File
	csvPath string
)

func setup() {
	if tmpDir != "" {
		return
	}
	var err error
	base := filepath.Join(runner.VerifDir(), ".build")
	if st, e := os.Stat("/dev/shm"); e == nil && st.IsDir() {
		base = "/dev/shm" // memory-backed: every execution rewrites stdout and the csv file
	}
	tmpDir, err = os.MkdirTemp(base, "verif-cmdloop-")
	if err != nil {
		panic(err)
	}
	outFile, err = os.Create(filepath.Join(tmpDir, "stdout"))
	if err != nil {
		panic(err)
	}
	csvPath = filepath.Join(tmpDir, "out.csv")
	color.Enabled = false
}

func cleanup() {
	if tmpDir != "" {
		outFile.Close()
		os.RemoveAll(tmpDir)
		tmpDir = ""
	}
}

type exitPanic struct{ code int }

func body(c *Config, r *result) {
	fs := vos.Reset()
	var names []string
	for i, content := range c.Variant.Files {
		n := fmt.Sprintf("%sf%d", vos.Root, i)
		fs.Put(n, []byte(content))
		names = append(names, n)
	}
	outFile.Truncate(0)
	outFile.Seek(0, 0)
	os.Remove(csvPath)
	realOut := os.Stdout
	os.Stdout = outFile
	oldExit := logger.OsExit
	logger.OsExit = func(code int) { panic(exitPanic{code}) }
	defer func() {
		os.Stdout = realOut
		logger.OsExit = oldExit
		if p := recover(); p != nil {
			if e, ok := p.(exitPanic); ok {
				r.Exit = e.code
				r.Err = "logger fatal"
				return
			}
			panic(p)
		}
	}()
	app := cli.NewApp()
	app.Commands = cmd.VerifNewCommands()
	app.ExitErrHandler = func(*cli.Context, error) {}
	app.Writer = outFile
	app.ErrWriter = outFile
	args := []string{"rare", c.Args[0]}
	args = append(args, c.Args[1:]...)
	args = append(args, "--workers", fmt.Sprint(c.Variant.Workers), "--batch", fmt.Sprint(c.Variant.Batch), "--readers", fmt.Sprint(c.Variant.Readers))
	if c.CSV {
		args = append(args, "--csv", csvPath)
	}
	args = append(args, names...)
	err := app.Run(args)
	if err != nil {
		r.Err = err.Error()
		r.Exit = 1
		if ec, ok := err.(cli.ExitCoder); ok {
			r.Exit = ec.ExitCode()
		}
	}
	b, _ := os.ReadFile(outFile.Name())
	// the status line shows a transfer rate that depends on elapsed (virtual) time: not part of the result
	var keep []string
	for _, l := range strings.Split(string(b), "\n") {
		if strings.Contains(l, "/s)") {
			continue
		}
		keep = append(keep, l)
	}
	r.Stdout = strings.Join(keep, "\n")
	if c.CSV {
		cb, _ := os.ReadFile(csvPath)
		r.CSV = string(cb)
	}
}

func run(ex vrt.Chooser, c *Config, trace bool) (*result, *vrt.Result) {
	setup()
	r := &result{}
	res := vrt.Run(ex, vrt.Options{Trace: trace, MaxAdvances: 30, ClockJumps: nil}, func() { body(c, r) })
	return r, res
}

// ---------------------------------------------------------------- enumeration

const (
	l1 = "a x 1\n"
	l2 = "b y 2\n"
	l3 = "a y 3\n"
	l4 = "c x 4\n"
)

func variants(ordered bool) []Variant {
	all := l1 + l2 + l3 + l4
	if ordered {
		return []Variant{
			{1, 1, 1, []string{all}},
			{1, 2, 1, []string{all}},
			{1, 3, 1, []string{all}},
		}
	}
	return []Variant{
		{1, 1, 1, []string{all}},
		{2, 1, 1, []string{all}},
		{2, 2, 2, []string{l1 + l2, l3 + l4}},
		{1, 2, 2, []string{l3 + l4, l1 + l2}},
		{2, 1, 2, []string{l2 + l4, l1, l3}},
	}
}

func commands() []*Config {
	m := []string{"-m", `(\w) (\w) (\d)`}
	t := append(append([]string{}, m...), "-e", "{1}", "-e", "{2}", "-e", "{3}")
	mk := func(name string, csv, ordered bool, args ...string) *Config {
		return &Config{Name: name, Args: args, CSV: csv, Ordered: ordered}
	}
	cat := func(a []string, b ...string) []string { return append(append([]string{}, a...), b...) }
	return []*Config{
		mk("histo", true, false, cat([]string{"histo"}, cat(m, "-e", "{1}", "-e", "{3}")...)...),
		mk("histo-text-sort", true, false, cat([]string{"histo", "--sort", "text"}, cat(m, "-e", "{2}")...)...),
		mk("table", true, false, cat([]string{"table"}, t...)...),
		mk("table-totals", true, false, cat([]string{"table", "-x"}, t...)...),
		mk("heatmap", true, false, cat([]string{"heatmap"}, t...)...),
		mk("spark", true, false, cat([]string{"spark"}, t...)...),
		mk("spark-cols1", true, false, cat([]string{"spark", "--cols", "1"}, t...)...),
		mk("bars", true, false, cat([]string{"bars"}, t...)...),
		mk("bars-stacked", true, false, cat([]string{"bars", "-s"}, t...)...),
		mk("analyze", false, false, cat([]string{"analyze", "-x"}, cat(m, "-e", "{3}")...)...),
		mk("analyze-reverse", false, false, cat([]string{"analyze", "-x", "--reverse", "-q", "50", "-q", "99"}, cat(m, "-e", "{3}")...)...),
		mk("histo-all-extra", true, false, cat([]string{"histo", "-a", "-x", "--atleast", "2"}, cat(m, "-e", "{2}", "-e", "{3}")...)...),
		mk("reduce", true, false, cat([]string{"reduce", "--group", "{1}", "--accumulator", "total={sumi {.} {3}}", "--accumulator", "n={sumi {.} 1}"}, m...)...),
		mk("reduce-nogroup", true, false, cat([]string{"reduce", "--accumulator", "total={sumi {.} {3}}", "--accumulator", "hi={maxi {.} {3}}"}, m...)...),
		mk("reduce-ordered", true, true, cat([]string{"reduce", "--group", "{1}", "--accumulator", "last={3}", "--accumulator", "cat={.}{3}"}, m...)...),
	}
}

type Case struct {
	Config *Config  `json:"config"`
	Vector []int    `json:"vector"`
	Trace  []string `json:"schedule,omitempty"`
}

func worker(w *runner.W) {
	defer cleanup()
	maxBound := 0
	var unitNo int64
	for _, base := range commands() {
		var baseline *result
		for vi, v := range variants(base.Ordered) {
			c := *base
			c.Variant = v
			// quick: 2 deviations for the most concurrent variant of each command,
			// 1 for the others; thorough: 2 everywhere and 3 for the most
			// concurrent variant of the commands with state between renders
			deep := vi == 2 || (base.Ordered && vi == 1)
			c.Bound = 1
			if deep || !w.Quick() {
				c.Bound = 2
			}
			if !w.Quick() && deep && (base.Name == "heatmap" || base.Name == "spark-cols1" || base.Name == "histo") {
				c.Bound = 3
			}
			if c.Bound > maxBound {
				maxBound = c.Bound
			}
			// the baseline: sequential variant, default schedule
			if vi == 0 {
				ex := mc.New(0)
				ex.Next()
				r, res := run(ex, &c, false)
				ex.EndExecution()
				if len(res.Faults) > 0 || len(res.Blocked) > 0 {
					w.Violation("C03/"+c.Name+"/baseline-did-not-complete", fmt.Sprintf("faults=%v blocked=%v", res.Faults, res.Blocked), Case{Config: &c, Vector: ex.Vector()})
					break
				}
				baseline = r
			}
			w.SetCase(func() any { return Case{Config: &c} })
			units := mc.Units(c.Bound, func(e *mc.Explorer) {
				run(e, &c, false)
				e.EndExecution()
			})
			for _, u := range units {
				unitNo++
				if !w.Owns(unitNo) {
					continue
				}
				if w.Expired() {
					return
				}
				ex := mc.NewSubtree(c.Bound, u)
				for ex.Next() {
					w.SetCase(func() any { return Case{Config: &c, Vector: ex.Vector()} })
					r, res := run(ex, &c, false)
					ex.EndExecution()
					w.Eval(res.Switches > 0)
					w.Add("transitions", int64(res.Steps))
					cs := Case{Config: &c, Vector: ex.Vector()}
					for _, f := range res.Faults {
						w.Violation("C03/"+c.Name+"/runtime-fault/"+slug(f), f, cs)
					}
					if len(res.Blocked) > 0 {
						w.Violation("C03/"+c.Name+"/did-not-complete", fmt.Sprint(res.Blocked), cs)
						continue
					}
					d := diff(baseline, r)
					if d != "" {
						w.Violation("C03/"+c.Name+"/"+d, fmt.Sprintf("variant %+v\nbaseline (workers=1 batch=1 readers=1, default schedule):\n%s\nthis execution:\n%s", v, show(baseline), show(r)), cs)
					}
					w.Outcome(c.Name, r.Stdout, r.CSV, fmt.Sprint(r.Exit))
					if w.WantSample() && res.Switches > 4 {
						_, r2 := run(replayOf(ex.Vector()), &c, true)
						w.Sample(Case{Config: &c, Vector: ex.Vector(), Trace: r2.Trace})
					}
				}
				w.Add("choice_points", ex.ChoicePoints)
			}
			if w.Shard == 0 {
				w.Add("command_variants", 1)
			}
		}
	}
	w.Max("deviation_bound_completed", int64(maxBound))
}

func show(r *result) string {
	return fmt.Sprintf("exit=%d err=%q\n--stdout--\n%s\n--csv--\n%s", r.Exit, r.Err, r.Stdout, r.CSV)
}

func diff(a, b *result) string {
	switch {
	case a.Exit != b.Exit:
		return "exit-status-differs"
	case a.CSV != b.CSV:
		return "csv-differs"
	case a.Stdout != b.Stdout:
		if squeeze(a.Stdout) == squeeze(b.Stdout) {
			return "snapshot-differs/spacing-only"
		}
		return "snapshot-differs/content"
	}
	return ""
}

// squeeze collapses runs of spaces (column padding and indentation).
func squeeze(s string) string {
	ls := strings.Split(s, "\n")
	for i := range ls {
		ls[i] = strings.Join(strings.Fields(ls[i]), " ")
	}
	return strings.Join(ls, "\n")
}

func slug(s string) string {
	if i := strings.IndexByte(s, '\n'); i >= 0 {
		s = s[:i]
	}
	var sb strings.Builder
	for _, r := range s {
		if (r >= 'a' && r <= 'z') || (r >= 'A' && r <= 'Z') || (r >= '0' && r <= '9') || r == '.' {
			sb.WriteRune(r)
		} else {
			sb.WriteByte('_')
		}
	}
	out := sb.String()
	if len(out) > 60 {
		out = out[:60]
	}
	return out
}

func replayOf(vec []int) *mc.Explorer {
	ex := mc.NewReplay(vec)
	ex.Next()
	return ex
}

func replay(w *runner.W, raw json.RawMessage) {
	defer cleanup()
	var c Case
	if err := json.Unmarshal(raw, &c); err != nil {
		panic(err)
	}
	// baseline of this command
	bc := *c.Config
	bc.Variant = variants(bc.Ordered)[0]
	ex := mc.New(0)
	ex.Next()
	baseline, _ := run(ex, &bc, false)
	r, res := run(replayOf(c.Vector), c.Config, true)
	for _, f := range res.Faults {
		w.Violation("C03/"+c.Config.Name+"/runtime-fault/"+slug(f), f, c)
	}
	if len(res.Blocked) > 0 {
		w.Violation("C03/"+c.Config.Name+"/did-not-complete", fmt.Sprint(res.Blocked), c)
		return
	}
	if d := diff(baseline, r); d != "" {
		w.Violation("C03/"+c.Config.Name+"/"+d, fmt.Sprintf("baseline:\n%s\nthis execution:\n%s\nschedule: %s", show(baseline), show(r), strings.Join(res.Trace, " ")), c)
	}
}

func main() {
	runner.Main(&runner.Spec{
		Name:       "cmdloop",
		Properties: []string{"C03"},
		Level:      "model_checking",
		Rule: func(prop, tier string) string {
			return "the real command functions (histo, histo -a -x --atleast, table, heatmap, spark, bars stacked/grouped, analyze -x, analyze -x --reverse -q, reduce with and without groups, reduce with order-sensitive accumulators) run in-process on the controlled runtime over 4 input lines on the virtual file system; for every tuning variant (workers 1-2, batch 1-3, readers 1-2, 1-3 files, file order and division of the lines) every schedule with at most B deviations (quick: B=2 for the variant with 2 workers, 2 readers and 2 files of each command and B=1 for the other variants; thorough: B=2 for all variants and B=3 for that variant of heatmap, spark --cols 1 and histo) (preemptions, render-timer firings, non-sorted map iteration orders in aggregation, csv, renderers and cmd) is executed; snapshot stdout (minus the transfer-rate line), CSV export and exit status must be byte-identical to the sequential default-schedule baseline. States = distinct (command, output) outcomes; non-trivial = at least one goroutine switch."
		},
		Assumptions: func(string) []string {
			return []string{"the baseline's correctness against an independent reference is decided by the cligrid harness on the real binary", "stdout is a file, so the commands select the buffered (snapshot) terminal", "map iteration orders: every permutation up to 3 keys, sorted/reverse/rotations beyond"}
		},
		Worker:         worker,
		Replay:         replay,
		HangSeconds:    120,
		QuickBudget:    4 * time.Minute,
		ThoroughBudget: 25 * time.Minute,
	})
}
