package cmd

import "github.com/urfave/cli/v2"

// VerifNewCommands returns freshly constructed command structs (the package
// level list is built once and urfave/cli flag objects keep state).
func VerifNewCommands() []*cli.Command {
	return []*cli.Command{
		filterCommand(),
		histogramCommand(),
		heatmapCommand(),
		sparkCommand(),
		bargraphCommand(),
		analyzeCommand(),
		tabulateCommand(),
		reduceCommand(),
	}
}
