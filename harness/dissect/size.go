package main

// SIZE sweeps and HISTORY families of C12.
//
// The grammar passes of main.go enumerate every pattern with at most two
// tokens against every line of at most 7 symbols. A defect that only exists
// beyond some size (a fixed scratch array for the offsets, a search that
// switches algorithm for long literals or long lines, a counter that wraps) is
// invisible there. The families of this file run a handful of fixed shapes
// parametrised by one size n over n = 0..70 and 2^k-1, 2^k, 2^k+1; the oracle
// is the same reference (ref.go) applied to the big input.
//
//	line-length     lines of n bytes with the delimiter at offset 0, in the
//	                middle, at the very end, at both ends, absent, cut
//	tokens          patterns of n tokens against lines of n-1, n, n+1 fields
//	skip-position   one %{} / %{?s} at every position among n tokens
//	literal-length  literals of n bytes (distinct letters, a..a, abab.., a..ab,
//	                mixed case) as leading, trailing, middle and leading+trailing
//	                literal against lines made of repeated proper prefixes of
//	                the literal, the literal only at the very end of a long
//	                line, the literal cut short by the end of the line
//
// HISTORY: every unit above uses ONE instance per mode for all its lines in
// order and again in reverse order and re-reads every slice it was handed at
// the end. Two further families are about history alone:
//
//	alternate       one instance matches lines of very different lengths and
//	                field counts alternately (> 1100 matches, two pool refills);
//	                every result must equal what a fresh instance returns
//	two-instances   two instances created through matchers.ToFactory(d)
//	                .CreateInstance() from ONE compiled pattern are used
//	                alternately on different lines; no result of either may
//	                change afterwards

import (
	"fmt"
	"strings"

	"rare/pkg/matchers"
	"rare/pkg/matchers/dissect"
	"verif/runner"
)

// sizeDesc is the replayable description of one unit of this file.
type sizeDesc struct {
	Kind   string `json:"kind"` // "size"
	Family string `json:"family"`
	Shape  string `json:"shape"`
	N      int    `json:"n"`
	Tier   string `json:"tier"`
	// informational (the first failing call)
	Pattern    string `json:"pattern,omitempty"` // quoted
	Line       string `json:"line,omitempty"`    // quoted, shortened
	IgnoreCase bool   `json:"ignore_case"`
}

// ------------------------------------------------------------------ sizes

// sweepNs: 0..70 and 2^k-1, 2^k, 2^k+1 for k = 7..maxK.
func sweepNs(maxK int) []int {
	var out []int
	for n := 0; n <= 70; n++ {
		out = append(out, n)
	}
	for k := 7; k <= maxK; k++ {
		out = append(out, 1<<k-1, 1<<k, 1<<k+1)
	}
	return out
}

func lineNs(quick bool) []int {
	if quick {
		return sweepNs(12)
	}
	return sweepNs(16)
}

// number of tokens / length of a literal
func countNs(quick bool) []int {
	if quick {
		return sweepNs(8)
	}
	return sweepNs(10)
}

var skipNs = []int{1, 2, 3, 4, 5, 6, 7, 8, 9, 10, 11, 12, 13, 14, 15, 16, 17, 31, 32, 33, 63, 64, 65, 70}

// --------------------------------------------------------------- contents

const fillAlpha = "0123456789bcdfghjkmnprstvwxzBCDFGHJKMNPRSTVWXZ" // no a/A, q/Q, punctuation

// fill returns n bytes; byte i depends on i (and on i/len, so that the text is
// not periodic with the alphabet length).
func fill(n int) string {
	if n <= 0 {
		return ""
	}
	b := make([]byte, n)
	for i := range b {
		b[i] = fillAlpha[(i+i/len(fillAlpha))%len(fillAlpha)]
	}
	return string(b)
}

// field i of a line: carries i, both letter cases.
func field(i int) string { return fmt.Sprintf("f%dX", i) }

func fieldsLine(n int, sep string, f func(int) string) string {
	var sb strings.Builder
	for i := 0; i < n; i++ {
		if i > 0 {
			sb.WriteString(sep)
		}
		sb.WriteString(f(i))
	}
	return sb.String()
}

func swapCase(s string) string {
	b := []byte(s)
	for i, c := range b {
		switch {
		case 'a' <= c && c <= 'z':
			b[i] = c - 32
		case 'A' <= c && c <= 'Z':
			b[i] = c + 32
		}
	}
	return string(b)
}

// everyOtherUpper upper-cases the letters at even offsets.
func everyOtherUpper(s string) string {
	b := []byte(s)
	for i, c := range b {
		if i%2 == 0 && 'a' <= c && c <= 'z' {
			b[i] = c - 32
		}
	}
	return string(b)
}

// ------------------------------------------------------------ unit builder

// sizeUnit is one pattern and the lines one instance per mode matches in
// order.
type sizeUnit struct {
	ps    patSpec
	lines []string
}

type sizeFamily struct {
	name   string
	shapes []string
	ns     func(quick bool) []int
	// build returns the units of (shape, n): usually one pattern. n = -1
	// (line-length only): the lines of all n of the tier, in ascending order,
	// for one instance
	build func(shape string, n int, quick bool) []sizeUnit
}

func namedToks(n int, sep, last string) []tokSpec {
	var t []tokSpec
	for i := 0; i < n; i++ {
		u := sep
		if i == n-1 {
			u = last
		}
		t = append(t, tokSpec{kNamed, fmt.Sprintf("g%d", i), u})
	}
	return t
}

// ---- line-length

type llShape struct {
	name  string
	ps    patSpec
	delim string // what the lines carry as delimiter
}

var llShapes = []llShape{
	{"x|y", patSpec{"", []tokSpec{{kNamed, "x", "|"}, {kNamed, "y", ""}}}, "|"},
	{"x|", patSpec{"", []tokSpec{{kNamed, "x", "|"}}}, "|"},
	{"|x", patSpec{"|", []tokSpec{{kNamed, "x", ""}}}, "|"},
	{"|", patSpec{"|", nil}, "|"},
	{"skip|y", patSpec{"", []tokSpec{{kSkipEmpty, "", "|"}, {kNamed, "y", ""}}}, "|"},
	{"x::y", patSpec{"", []tokSpec{{kNamed, "x", "::"}, {kNamed, "y", ""}}}, "::"},
	{"->x->y", patSpec{"->", []tokSpec{{kNamed, "x", "->"}, {kNamed, "y", ""}}}, "->"},
	{"xQy-lines-q", patSpec{"", []tokSpec{{kNamed, "x", "Q"}, {kNamed, "y", ""}}}, "q"},
	{"xaAy-lines-Aa", patSpec{"", []tokSpec{{kNamed, "x", "aA"}, {kNamed, "y", "a"}}}, "Aa"},
}

func llLines(n int, d string) []string {
	m := len(d)
	var out []string
	out = append(out, fill(n)) // absent
	if n >= m {
		h := (n - m) / 2
		out = append(out,
			d+fill(n-m),                      // at offset 0
			fill(n-m)+d,                      // at the very end
			fill(h)+d+fill(n-m-h),            // in the middle
			strings.Repeat(d, n/m)+fill(n%m), // at every position
		)
		if m > 1 {
			out = append(out, fill(n-m+1)+d[:m-1])           // cut short by the end of the line
			out = append(out, d[:m-1]+fill(n-m)+d[1:]+d[:1]) // pieces only
		}
	}
	if n >= 2*m {
		out = append(out, d+fill(n-2*m)+d) // at both ends
	}
	if n >= 3*m {
		h := (n - 3*m) / 2
		out = append(out, d+fill(h)+d+fill(n-3*m-h)+d)
	}
	return out
}

// ---- tokens

func tokensUnit(shape string, n int, _ bool) []sizeUnit {
	var ps patSpec
	lineTail := ""
	switch shape {
	case "named":
		ps = patSpec{"", namedToks(n, ",", "")}
	case "named-trailing-literal":
		ps = patSpec{"", namedToks(n, ",", ";")}
		lineTail = ";"
	case "prefixed":
		ps = patSpec{">>", namedToks(n, ",", "")}
	case "every-other-skipped":
		t := namedToks(n, ",", "")
		for i := range t {
			switch i % 4 {
			case 1:
				t[i].Kind, t[i].Name = kSkipEmpty, ""
			case 3:
				t[i].Kind, t[i].Name = kSkipNamed, fmt.Sprintf("s%d", i)
			}
		}
		ps = patSpec{"", t}
	case "two-byte-delimiter-ignore-case":
		ps = patSpec{"", namedToks(n, "xY", "")}
	}
	pre := ps.Prefix
	sep := ","
	if shape == "two-byte-delimiter-ignore-case" {
		sep = "Xy"
	}
	var lines []string
	for _, k := range []int{n, n - 1, n + 1, 2*n + 3} {
		if k < 0 {
			continue
		}
		lines = append(lines, pre+fieldsLine(k, sep, field)+lineTail)
	}
	lines = append(lines,
		pre+fieldsLine(n, sep, func(int) string { return "" })+lineTail, // empty fields
		fieldsLine(n, sep, field), // without the leading literal / the trailing literal
		pre+fieldsLine(n, sep, func(i int) string { return fill(i % 7) })+lineTail,
		"",
	)
	return []sizeUnit{{ps, lines}}
}

// ---- skip-position

func skipUnits(shape string, n int, _ bool) []sizeUnit {
	var out []sizeUnit
	for p := 0; p < n; p++ {
		t := namedToks(n, ",", "")
		if shape == "empty" {
			t[p].Kind, t[p].Name = kSkipEmpty, ""
		} else {
			t[p].Kind, t[p].Name = kSkipNamed, fmt.Sprintf("g%d", p)
		}
		out = append(out, sizeUnit{patSpec{"", t}, []string{
			fieldsLine(n, ",", field),
			fieldsLine(n+1, ",", field),
			fieldsLine(n-1, ",", field),
		}})
	}
	return out
}

// ---- literal-length

func literal(kind string, n int) string {
	b := make([]byte, n)
	for i := range b {
		switch kind {
		case "distinct":
			b[i] = "abcdefghijklmnopqrstuvwxy"[(i+i/25)%25]
		case "mixed-case":
			b[i] = "aBcDeFgHiJkLmNoPqRsTuVwXy"[(i+i/25)%25]
		case "all-a":
			b[i] = 'a'
		case "abab":
			b[i] = "ab"[i%2]
		case "a-then-b":
			b[i] = 'a'
			if i == n-1 {
				b[i] = 'b'
			}
		case "aab-periodic":
			b[i] = "aab"[i%3]
		}
	}
	return string(b)
}

var literalKinds = []string{"distinct", "mixed-case", "all-a", "abab", "a-then-b", "aab-periodic"}
var literalPlaces = []string{"leading", "trailing", "middle", "leading+trailing"}

func literalUnit(shape string, n int, _ bool) []sizeUnit {
	kind, place, _ := strings.Cut(shape, "/")
	L := literal(kind, n)
	var ps patSpec
	switch place {
	case "leading":
		ps = patSpec{L, []tokSpec{{kNamed, "x", ""}}}
	case "trailing":
		ps = patSpec{"", []tokSpec{{kNamed, "x", L}}}
	case "middle":
		ps = patSpec{"", []tokSpec{{kNamed, "x", L}, {kNamed, "y", ""}}}
	case "leading+trailing":
		ps = patSpec{L, []tokSpec{{kNamed, "x", L}}}
	}
	// a byte that differs from the last byte of the literal (in both cases)
	brk := "z"
	long := 4097
	if n > 70 {
		long = 2*n + 1
	}
	head := L[:n-1]
	lines := []string{
		L,
		"<" + L + ">",
		head + brk + L + "t",
		strings.Repeat(head+brk, 3) + L,
		head + head + L,
		L[1:] + L,
		L[:n/2] + L,
		L[:n/2] + L + L[n/2:],
		fill(long) + L,    // only at the very end of a long line
		fill(long) + head, // cut short by the end of a long line
		head,
		L + L,
		L + "mid" + L + "end" + L,
		L + head + brk + L,
		swapCase("<" + L + ">"),
		everyOtherUpper(head + brk + L + "t"),
		everyOtherUpper(L) + swapCase(L),
		"",
	}
	return []sizeUnit{{ps, lines}}
}

func sizeFamilies() []sizeFamily {
	var llNames []string
	for _, s := range llShapes {
		llNames = append(llNames, s.name)
	}
	var litShapes []string
	for _, k := range literalKinds {
		for _, p := range literalPlaces {
			litShapes = append(litShapes, k+"/"+p)
		}
	}
	return []sizeFamily{
		{"line-length", llNames, func(q bool) []int { return append([]int{-1}, lineNs(q)...) }, func(shape string, n int, quick bool) []sizeUnit {
			for _, s := range llShapes {
				if s.name == shape {
					if n >= 0 {
						return []sizeUnit{{s.ps, llLines(n, s.delim)}}
					}
					var all []string
					for _, k := range lineNs(quick) {
						all = append(all, llLines(k, s.delim)...)
					}
					return []sizeUnit{{s.ps, all}}
				}
			}
			return nil
		}},
		{"tokens", []string{"named", "named-trailing-literal", "prefixed", "every-other-skipped", "two-byte-delimiter-ignore-case"}, countNs, tokensUnit},
		{"skip-position", []string{"empty", "named"}, func(bool) []int { return skipNs }, skipUnits},
		{"literal-length", litShapes, func(q bool) []int { return countNs(q)[1:] }, literalUnit},
	}
}

// ---------------------------------------------------------------- running

func shorten(s string) string {
	if len(s) <= 160 {
		return q(s)
	}
	return fmt.Sprintf("%s...(%d bytes)...%s", q(s[:70]), len(s), q(s[len(s)-70:]))
}

func patASCII(ps patSpec) bool {
	ok := isASCII(ps.Prefix)
	for _, t := range ps.Toks {
		ok = ok && isASCII(t.Until)
	}
	return ok
}

type refPattern struct {
	ps          patSpec
	text        string
	toks, toksA []refTok
	prefA       string
	nCap        int
	ascii       bool
	wantNames   map[string]int
	d           [2]*dissect.Dissect
}

// compileSize compiles both modes and checks the name table.
func compileSize(w *runner.W, ps patSpec, desc sizeDesc, sigTail string) *refPattern {
	r := &refPattern{ps: ps, text: ps.text(), prefA: lowerASCII(ps.Prefix), ascii: patASCII(ps), wantNames: map[string]int{}}
	for _, t := range ps.Toks {
		capt := t.Kind == kNamed
		r.toks = append(r.toks, refTok{t.Until, capt})
		r.toksA = append(r.toksA, refTok{lowerASCII(t.Until), capt})
		if capt {
			r.nCap++
			r.wantNames[t.Name] = r.nCap
		}
	}
	for m := 0; m < 2; m++ {
		d, err, pan := compileReal(r.text, m == 1)
		desc.Pattern, desc.IgnoreCase = shorten(r.text), m == 1
		if pan != nil {
			w.Violation("C12/panic/CompileEx/"+panicClass(pan)+sigTail, fmt.Sprintf("CompileEx(%s, ignoreCase=%v) (%d tokens) panicked: %v", shorten(r.text), m == 1, len(ps.Toks), pan), desc)
			return nil
		}
		if err != nil || d == nil {
			w.Violation("C12/compile/valid-pattern-rejected"+sigTail, fmt.Sprintf("CompileEx(%s, ignoreCase=%v) = error %v; the pattern is a leading literal of %d bytes followed by %d well-formed tokens separated by non-empty literals", shorten(r.text), m == 1, err, len(ps.Prefix), len(ps.Toks)), desc)
			return nil
		}
		got := d.SubexpNameTable()
		same := len(got) == len(r.wantNames)
		for k, v := range r.wantNames {
			if got[k] != v {
				same = false
			}
		}
		if !same {
			w.Violation("C12/compile/name-table-wrong"+sigTail, fmt.Sprintf("CompileEx(%s, ignoreCase=%v).SubexpNameTable() has %d entries %s, want the %d capturing tokens numbered in order of appearance", shorten(r.text), m == 1, len(got), shorten(fmt.Sprint(got)), len(r.wantNames)), desc)
			return nil
		}
		r.d[m] = d
	}
	return r
}

type finder interface{ FindSubmatchIndex(b []byte) []int }

func safeFind(f finder, lb []byte) (res []int, pan any) {
	defer func() {
		if r := recover(); r != nil {
			res, pan = nil, r
		}
	}()
	return f.FindSubmatchIndex(lb), nil
}

// structuralErr: "all offsets are ordered and within the line".
func structuralErr(got []int, nCap int, lineLen int) string {
	if got == nil {
		return ""
	}
	if len(got) != 2+2*nCap {
		return fmt.Sprintf("result has %d offsets, want %d", len(got), 2+2*nCap)
	}
	prev := got[0]
	if prev < 0 {
		return "negative offset"
	}
	for k := 2; k < len(got); k++ {
		if got[k] < prev {
			return fmt.Sprintf("offset %d (%d) lies before its predecessor (%d)", k, got[k], prev)
		}
		prev = got[k]
	}
	if got[1] < prev {
		return fmt.Sprintf("end of {0} (%d) lies before the last group (%d)", got[1], prev)
	}
	if got[1] > lineLen {
		return fmt.Sprintf("end of {0} (%d) lies beyond the line (%d bytes)", got[1], lineLen)
	}
	return ""
}

func diffClass(got, want []int) string {
	switch {
	case got == nil:
		return "match-missed"
	case want == nil:
		return "spurious-match"
	case len(got) != len(want):
		return "wrong-group-count"
	}
	for k := 2; k < len(got); k++ {
		if got[k] != want[k] {
			return "wrong-group-offsets"
		}
	}
	return "wrong-span-of-0"
}

func showInts(v []int) string {
	if v == nil {
		return "no match"
	}
	if len(v) <= 24 {
		return fmt.Sprint(v)
	}
	return fmt.Sprintf("%v ... %v (%d offsets)", v[:10], v[len(v)-6:], len(v))
}

func firstDiff(a, b []int) string {
	if a == nil || b == nil || len(a) != len(b) {
		return ""
	}
	for k := range a {
		if a[k] != b[k] {
			return fmt.Sprintf("; first difference at offset #%d: got %d, want %d", k, a[k], b[k])
		}
	}
	return ""
}

// retained: every slice handed out by one instance (or a group of instances),
// with a copy of its contents at the time of the call.
type retained struct {
	ret  [][]int
	snap [][]int
}

func (r *retained) keep(got []int) {
	r.ret = append(r.ret, got)
	if got == nil {
		r.snap = append(r.snap, nil)
		return
	}
	r.snap = append(r.snap, append(make([]int, 0, len(got)), got...))
}

// altered returns the index of the first retained slice whose contents
// changed, or -1.
func (r *retained) altered() int {
	for k := range r.ret {
		if !equalInts(r.ret[k], r.snap[k]) {
			return k
		}
	}
	return -1
}

// oracleLine applies the per-line clauses of the statement to the two results
// of one line. wantC/wantA are computed here. It returns false after a report.
func (r *refPattern) oracleLine(w *runner.W, line string, lowA string, gotC, gotI []int, okC, okI bool, sigMid string, desc sizeDesc, buf *[]int) {
	desc.Pattern, desc.Line = shorten(r.text), shorten(line)
	if okC {
		// "the result equals the specification"
		wantC := refMatch(r.ps.Prefix, r.toks, line, (*buf)[:0])
		if e := structuralErr(gotC, r.nCap, len(line)); e != "" {
			w.Violation("C12/offsets/case-sensitive/not-ordered-or-outside-line"+sigMid, fmt.Sprintf("pattern %s case-sensitive line %s: result %s: %s", shorten(r.text), shorten(line), showInts(gotC), e), desc)
		} else if !equalInts(gotC, wantC) {
			w.Violation("C12/specification/case-sensitive/"+diffClass(gotC, wantC)+sigMid,
				fmt.Sprintf("pattern %s (%d tokens) case-sensitive line %s: got %s, specification gives %s%s", shorten(r.text), len(r.ps.Toks), shorten(line), showInts(gotC), showInts(wantC), firstDiff(gotC, wantC)), desc)
		}
	}
	if !okI {
		return
	}
	desc.IgnoreCase = true
	if e := structuralErr(gotI, r.nCap, len(line)); e != "" {
		w.Violation("C12/offsets/ignore-case/not-ordered-or-outside-line"+sigMid, fmt.Sprintf("pattern %s ignore-case line %s: result %s: %s", shorten(r.text), shorten(line), showInts(gotI), e), desc)
		return
	}
	// "With ignore-case any line matched case-sensitively still matches"
	if okC && gotC != nil && gotI == nil {
		w.Violation("C12/ignore-case/case-sensitive-match-lost"+sigMid, fmt.Sprintf("pattern %s line %s: matches case-sensitively (%s) but not with ignore-case", shorten(r.text), shorten(line), showInts(gotC)), desc)
		return
	}
	if r.ascii && isASCII(line) {
		// "for ASCII text the result equals the case-sensitive result on
		// lower-cased pattern and line"
		wantA := refMatch(r.prefA, r.toksA, lowA, (*buf)[:0])
		if !equalInts(gotI, wantA) {
			w.Violation("C12/specification/ignore-case/ascii/"+diffClass(gotI, wantA)+sigMid,
				fmt.Sprintf("pattern %s (%d tokens) ignore-case line %s: got %s, the case-sensitive specification on lower-cased pattern and line gives %s%s", shorten(r.text), len(r.ps.Toks), shorten(line), showInts(gotI), showInts(wantA), firstDiff(gotI, wantA)), desc)
		}
	}
}

// runSizeUnit: one pattern, one instance per mode over all lines forward and
// backward; everything retained and re-read.
func runSizeUnit(w *runner.W, fam string, u sizeUnit, desc sizeDesc, buf *[]int) {
	sigMid := "/" + fam + "/size-family"
	r := compileSize(w, u.ps, desc, sigMid)
	if r == nil {
		w.Eval(false)
		return
	}
	var inst [2]*dissect.DissectInstance
	var keep [2]retained
	for m := 0; m < 2; m++ {
		inst[m] = r.d[m].CreateInstance()
	}
	first := make([][2][]int, len(u.lines))
	ok := make([][2]bool, len(u.lines))
	lbs := make([][]byte, len(u.lines))
	for i, line := range u.lines {
		lbs[i] = []byte(line)
		for m := 0; m < 2; m++ {
			got, pan := safeFind(inst[m], lbs[i])
			if pan != nil {
				d := desc
				d.Pattern, d.Line, d.IgnoreCase = shorten(r.text), shorten(line), m == 1
				w.Violation("C12/panic/FindSubmatchIndex/"+modeName[m]+"/"+panicClass(pan)+sigMid, fmt.Sprintf("pattern %s (%d tokens) %s line %s: panic: %v", shorten(r.text), len(u.ps.Toks), modeName[m], shorten(line), pan), d)
				continue
			}
			ok[i][m] = true
			first[i][m] = got
			keep[m].keep(got)
			w.Evals++
			if got != nil {
				w.Nontrivial++
			}
		}
		r.oracleLine(w, line, lowerASCII(line), first[i][0], first[i][1], ok[i][0], ok[i][1], sigMid, desc, buf)
		h := uint64(1469598103934665603)
		for m := 0; m < 2; m++ {
			h = (h ^ uint64(len(first[i][m])+3)) * 1099511628211
			if len(first[i][m]) > 1 {
				h = (h ^ uint64(first[i][m][0])) * 1099511628211
				h = (h ^ uint64(first[i][m][1])) * 1099511628211
			}
		}
		w.OutcomeHash(h ^ uint64(len(fam)))
	}
	w.Tick()
	// reverse order: the result for a line does not depend on what the
	// instance matched before
	for m := 0; m < 2; m++ {
		reported := false
		for i := len(u.lines) - 1; i >= 0; i-- {
			if !ok[i][m] {
				continue
			}
			got, pan := safeFind(inst[m], lbs[i])
			if pan != nil {
				continue
			}
			keep[m].keep(got)
			w.Evals++
			if got != nil {
				w.Nontrivial++
			}
			if !reported && !equalInts(got, keep[m].snap[indexOfCall(ok, i, m)]) {
				reported = true
				d := desc
				d.Pattern, d.Line, d.IgnoreCase = shorten(r.text), shorten(u.lines[i]), m == 1
				w.Violation("C12/sequence/"+modeName[m]+"/result-depends-on-history"+sigMid, fmt.Sprintf("pattern %s %s: line %s gave %s when matched again after the other lines (in reverse order), but %s the first time", shorten(r.text), modeName[m], shorten(u.lines[i]), showInts(got), showInts(keep[m].snap[indexOfCall(ok, i, m)])), d)
			}
		}
		// "results returned for earlier lines are not altered by matching
		// later lines"
		if k := keep[m].altered(); k >= 0 {
			d := desc
			d.Pattern, d.IgnoreCase = shorten(r.text), m == 1
			w.Violation("C12/pool/"+modeName[m]+"/earlier-result-altered"+sigMid, fmt.Sprintf("pattern %s %s: result #%d of %d calls was %s when returned and reads %s after the later calls", shorten(r.text), modeName[m], k, len(keep[m].ret), showInts(keep[m].snap[k]), showInts(keep[m].ret[k])), d)
		}
		w.Add("slices_retained_and_reread", int64(len(keep[m].ret)))
	}
	w.Add("size_family_patterns", 1)
	w.Max("size_family_max_tokens", int64(len(u.ps.Toks)))
	for _, l := range u.lines {
		w.Max("size_family_max_line_bytes", int64(len(l)))
	}
}

// indexOfCall: the position, among the successful first-pass calls of mode m,
// of line i.
func indexOfCall(ok [][2]bool, i, m int) int {
	k := 0
	for j := 0; j < i; j++ {
		if ok[j][m] {
			k++
		}
	}
	return k
}

// ---------------------------------------------------------------- history

type histPattern struct {
	name string
	ps   patSpec
}

func histPatterns() []histPattern {
	return []histPattern{
		{"whole-line", patSpec{"", []tokSpec{{kNamed, "x", ""}}}},
		{"no-capture", patSpec{"", []tokSpec{{kSkipEmpty, "", ","}, {kSkipNamed, "s", ""}}}},
		{"three-fields", patSpec{"", namedToks(3, ",", "")}},
		{"eight-fields-prefixed", patSpec{">", namedToks(8, ",", ";")}},
		{"forty-fields", patSpec{"", namedToks(40, ",", "")}},
		{"letter-delimiters", patSpec{"Id", []tokSpec{{kNamed, "a", "X"}, {kSkipEmpty, "", "yY"}, {kNamed, "b", ""}}}},
	}
}

// histLines: lines of very different lengths and field counts for a pattern
// of k tokens with leading literal pre and separator sep.
func histLines(hp histPattern, quick bool) []string {
	k := len(hp.ps.Toks)
	pre, tail := hp.ps.Prefix, ""
	if k > 0 {
		tail = hp.ps.Toks[k-1].Until
	}
	huge := 8193
	if !quick {
		huge = 65537
	}
	if hp.name == "letter-delimiters" {
		return []string{
			"IdaXbyYc",
			"id" + fill(3000) + "x" + fill(500) + "Yy" + fill(700),
			"",
			"Id",
			fill(huge),
			fill(100) + "ID" + "x" + "yy",
			"IdXyY",
			"idAxByyC" + fill(60),
			fill(huge-8) + "IdaXbyYc",
			"IdaX",
		}
	}
	big := func(i int) string { return fill(80 + i%5) }
	mid := func(i int) string { return fill(300 + i) }
	return []string{
		pre + fieldsLine(k+50, ",", big) + tail,                            // long, many more fields
		pre + fieldsLine(k, ",", func(i int) string { return "v" }) + tail, // short
		pre + fieldsLine(k-1, ",", field) + tail,                           // one field too few
		"",                                                                 // empty
		pre + fieldsLine(k, ",", mid) + tail,                               // medium
		pre + fieldsLine(k, ",", func(i int) string { return "" }) + tail, // only delimiters
		fill(huge), // huge, no delimiter
		pre + fieldsLine(k, ",", field) + tail + fill(huge/2),   // match at the start of a huge line
		fill(huge/2) + pre + fieldsLine(k+1, ",", field) + tail, // match at the end of a huge line
		pre + fieldsLine(2*k+1, ",", field) + tail + tail,       // more fields, trailing literal twice
		pre + pre + fieldsLine(k, ",", field),                   // leading literal twice, no trailing literal
		strings.ToUpper(pre + fieldsLine(k, ",", field) + tail), // upper case
	}
}

const histCalls = 4000 // the pool is refilled every 1024 matches; the matches of one instance are recorded (history_family_max/min_matches_of_one_instance)

// runAlternate: ONE instance per mode matches the lines alternately for
// histCalls calls; every result equals the result of a fresh instance and the
// specification; everything is retained and re-read at the end.
func runAlternate(w *runner.W, hp histPattern, quick bool, stride int, buf *[]int) {
	desc := sizeDesc{Kind: "size", Family: "alternate", Shape: hp.name, N: stride}
	sigMid := "/alternate/history-family"
	r := compileSize(w, hp.ps, desc, sigMid)
	if r == nil {
		w.Eval(false)
		return
	}
	lines := histLines(hp, quick)
	lbs := make([][]byte, len(lines))
	lows := make([]string, len(lines))
	var fresh [2][][]int
	for i, l := range lines {
		lbs[i] = []byte(l)
		lows[i] = lowerASCII(l)
	}
	// the result of a fresh instance of a freshly compiled pattern, per line
	for m := 0; m < 2; m++ {
		for i := range lines {
			d, err, pan := compileReal(r.text, m == 1)
			if err != nil || pan != nil {
				return // reported by compileSize
			}
			got, pan := safeFind(d.CreateInstance(), lbs[i])
			if pan != nil {
				dd := desc
				dd.Pattern, dd.Line, dd.IgnoreCase = shorten(r.text), shorten(lines[i]), m == 1
				w.Violation("C12/panic/FindSubmatchIndex/"+modeName[m]+"/"+panicClass(pan)+sigMid, fmt.Sprintf("pattern %s %s line %s (fresh instance): panic: %v", shorten(r.text), modeName[m], shorten(lines[i]), pan), dd)
				return
			}
			if got != nil {
				got = append(make([]int, 0, len(got)), got...)
			}
			fresh[m] = append(fresh[m], got)
		}
	}
	for i := range lines {
		r.oracleLine(w, lines[i], lows[i], fresh[0][i], fresh[1][i], true, true, sigMid, desc, buf)
	}
	for m := 0; m < 2; m++ {
		inst := r.d[m].CreateInstance()
		var keep retained
		var which []int
		reported := false
		matches := int64(0)
		for c := 0; c < histCalls; c++ {
			i := (c * stride) % len(lines)
			got, pan := safeFind(inst, lbs[i])
			if pan != nil {
				dd := desc
				dd.Pattern, dd.Line, dd.IgnoreCase = shorten(r.text), shorten(lines[i]), m == 1
				w.Violation("C12/panic/FindSubmatchIndex/"+modeName[m]+"/"+panicClass(pan)+sigMid, fmt.Sprintf("pattern %s %s line %s (call #%d of one instance): panic: %v", shorten(r.text), modeName[m], shorten(lines[i]), c, pan), dd)
				return
			}
			keep.keep(got)
			which = append(which, i)
			w.Evals++
			if got != nil {
				w.Nontrivial++
				matches++
			}
			if !reported && !equalInts(got, fresh[m][i]) {
				reported = true
				dd := desc
				dd.Pattern, dd.Line, dd.IgnoreCase = shorten(r.text), shorten(lines[i]), m == 1
				prev := "nothing"
				if c > 0 {
					prev = shorten(lines[which[c-1]])
				}
				w.Violation("C12/sequence/"+modeName[m]+"/result-depends-on-history"+sigMid, fmt.Sprintf("pattern %s %s: call #%d of one instance, line %s, gave %s; a fresh instance gives %s (the call before matched %s)", shorten(r.text), modeName[m], c, shorten(lines[i]), showInts(got), showInts(fresh[m][i]), prev), dd)
			}
		}
		if k := keep.altered(); k >= 0 {
			dd := desc
			dd.Pattern, dd.Line, dd.IgnoreCase = shorten(r.text), shorten(lines[which[k]]), m == 1
			w.Violation("C12/pool/"+modeName[m]+"/earlier-result-altered"+sigMid, fmt.Sprintf("pattern %s %s: result #%d of %d calls (line %s) was %s when returned and reads %s after the later calls", shorten(r.text), modeName[m], k, len(keep.ret), shorten(lines[which[k]]), showInts(keep.snap[k]), showInts(keep.ret[k])), dd)
		}
		w.Add("slices_retained_and_reread", int64(len(keep.ret)))
		w.Max("history_family_max_matches_of_one_instance", matches)
		w.Add("history_family_instances", 1)
		if matches >= 1100 {
			w.Add("history_family_instances_with_1100_or_more_matches", 1)
		}
		if matches > 2048 {
			w.Add("history_family_instances_with_two_or_more_pool_refills", 1)
		}
	}
	w.Add("history_family_units", 1)
	w.Tick()
}

// runTwoInstances: two instances made by the factory from ONE compiled
// pattern, used alternately on different lines. "results returned for earlier
// lines are not altered by matching later lines".
func runTwoInstances(w *runner.W, hp histPattern, quick bool, stride int, buf *[]int) {
	desc := sizeDesc{Kind: "size", Family: "two-instances", Shape: hp.name, N: stride}
	sigMid := "/two-instances/history-family"
	r := compileSize(w, hp.ps, desc, sigMid)
	if r == nil {
		w.Eval(false)
		return
	}
	lines := histLines(hp, quick)
	lbs := make([][]byte, len(lines))
	for i, l := range lines {
		lbs[i] = []byte(l)
	}
	for m := 0; m < 2; m++ {
		// the same construction as cmd/helpers/extractorBuilder.go
		f := matchers.ToFactory(r.d[m])
		insts := []matchers.Matcher{f.CreateInstance(), f.CreateInstance(), f.CreateInstance()}
		var keep retained
		var which, who []int
		want := make([][]int, len(lines))
		for i, l := range lines {
			var ref []int
			if m == 0 {
				ref = refMatch(r.ps.Prefix, r.toks, l, (*buf)[:0])
			} else {
				// all lines and literals of this family are ASCII
				ref = refMatch(r.prefA, r.toksA, lowerASCII(l), (*buf)[:0])
			}
			if ref != nil {
				want[i] = append(make([]int, 0, len(ref)), ref...)
			}
		}
		reported := false
		for c := 0; c < histCalls; c++ {
			// instance 0 and 1 alternate; instance 2 joins every 7th call
			k := c % 2
			if c%7 == 6 {
				k = 2
			}
			i := (c*stride + k) % len(lines)
			got, pan := safeFind(insts[k], lbs[i])
			if pan != nil {
				dd := desc
				dd.Pattern, dd.Line, dd.IgnoreCase = shorten(r.text), shorten(lines[i]), m == 1
				w.Violation("C12/panic/FindSubmatchIndex/"+modeName[m]+"/"+panicClass(pan)+sigMid, fmt.Sprintf("pattern %s %s line %s (call #%d, instance %d of 3 of one compiled pattern): panic: %v", shorten(r.text), modeName[m], shorten(lines[i]), c, k, pan), dd)
				return
			}
			keep.keep(got)
			which = append(which, i)
			who = append(who, k)
			w.Evals++
			if got != nil {
				w.Nontrivial++
			}
			if !reported && !equalInts(got, want[i]) {
				reported = true
				dd := desc
				dd.Pattern, dd.Line, dd.IgnoreCase = shorten(r.text), shorten(lines[i]), m == 1
				w.Violation("C12/sequence/"+modeName[m]+"/result-depends-on-history"+sigMid, fmt.Sprintf("pattern %s %s: call #%d (instance %d of 3 created from one compiled pattern), line %s, gave %s; the specification gives %s", shorten(r.text), modeName[m], c, k, shorten(lines[i]), showInts(got), showInts(want[i])), dd)
			}
		}
		if k := keep.altered(); k >= 0 {
			dd := desc
			dd.Pattern, dd.Line, dd.IgnoreCase = shorten(r.text), shorten(lines[which[k]]), m == 1
			w.Violation("C12/pool/"+modeName[m]+"/earlier-result-altered"+sigMid, fmt.Sprintf("pattern %s %s: result #%d of %d calls (instance %d, line %s) was %s when returned and reads %s after later calls of the three instances created from the same compiled pattern", shorten(r.text), modeName[m], k, len(keep.ret), who[k], shorten(lines[which[k]]), showInts(keep.snap[k]), showInts(keep.ret[k])), dd)
		}
		w.Add("slices_retained_and_reread", int64(len(keep.ret)))
	}
	w.Add("history_family_units", 1)
	w.Tick()
}

var histStrides = []int{1, 5, 7, 11}

// ----------------------------------------------------------------- worker

// sizeWorker enumerates the units of this file; caseNo continues the
// numbering of the grammar passes.
func sizeWorker(w *runner.W, caseNo *int64) {
	quick := w.Quick()
	buf := make([]int, 0, 4096)
	for _, fam := range sizeFamilies() {
		for _, shape := range fam.shapes {
			for _, n := range fam.ns(quick) {
				*caseNo++
				if !w.Owns(*caseNo) {
					continue
				}
				if w.Expired() {
					return
				}
				desc := sizeDesc{Kind: "size", Family: fam.name, Shape: shape, N: n, Tier: w.Tier}
				w.SetCase(func() any { return desc })
				for _, u := range fam.build(shape, n, quick) {
					runSizeUnit(w, fam.name, u, desc, &buf)
				}
				w.Add("size_family_units", 1)
			}
		}
	}
	for _, hp := range histPatterns() {
		for _, stride := range histStrides {
			for _, famName := range []string{"alternate", "two-instances"} {
				*caseNo++
				if !w.Owns(*caseNo) {
					continue
				}
				if w.Expired() {
					return
				}
				desc := sizeDesc{Kind: "size", Family: famName, Shape: hp.name, N: stride, Tier: w.Tier}
				w.SetCase(func() any { return desc })
				if famName == "alternate" {
					runAlternate(w, hp, quick, stride, &buf)
				} else {
					runTwoInstances(w, hp, quick, stride, &buf)
				}
			}
		}
	}
}

func replaySize(w *runner.W, d sizeDesc) {
	quick := d.Tier != "thorough"
	buf := make([]int, 0, 4096)
	switch d.Family {
	case "alternate", "two-instances":
		for _, hp := range histPatterns() {
			if hp.name == d.Shape {
				if d.Family == "alternate" {
					runAlternate(w, hp, quick, d.N, &buf)
				} else {
					runTwoInstances(w, hp, quick, d.N, &buf)
				}
				return
			}
		}
		panic("unknown history pattern " + d.Shape)
	}
	for _, fam := range sizeFamilies() {
		if fam.name == d.Family {
			for _, u := range fam.build(d.Shape, d.N, quick) {
				runSizeUnit(w, fam.name, u, sizeDesc{Kind: "size", Family: d.Family, Shape: d.Shape, N: d.N, Tier: d.Tier}, &buf)
			}
			return
		}
	}
	panic("unknown size family " + d.Family)
}

// sizeRule describes the families for the evidence.
func sizeRule(quick bool) string {
	ln, cn := lineNs(quick), countNs(quick)
	var ll []string
	for _, s := range llShapes {
		ll = append(ll, fmt.Sprintf("%q on lines carrying %q", s.ps.text(), s.delim))
	}
	var hp []string
	for _, h := range histPatterns() {
		hp = append(hp, fmt.Sprintf("%s (%d tokens)", h.name, len(h.ps.Toks)))
	}
	huge := 8193
	if !quick {
		huge = 65537
	}
	return fmt.Sprintf(" SIZE families (one size n swept over 0..70 and 2^k-1, 2^k, 2^k+1; the oracle is the same reference applied to the big input; both modes; one instance per pattern and mode matches all lines of the unit in order and in reverse order and every slice is retained and re-read): "+
		"line-length: n up to %d, patterns %s, lines of n bytes of position-dependent filler with the delimiter at offset 0 / in the middle / at the very end / at both ends / at every position / absent / cut short by the end of the line; "+
		"tokens: patterns of n tokens (n up to %d; all named, with a trailing literal, with a leading literal, every other one skipped by %%{} or %%{?s}, two-letter delimiter in the other letter case) against lines of n-1, n, n+1 and 2n+3 fields, empty fields, missing leading/trailing literal; "+
		"skip-position: n in %v tokens with one %%{} or one %%{?s} at every position 0..n-1, lines of n-1, n, n+1 fields; "+
		"literal-length: literals of n = 1..%d bytes of %d kinds %v as %v literal, against 18 lines per literal: the literal alone, embedded, after 1 and 3 copies of its proper prefix broken by another byte, after two unbroken copies of its prefix, shifted by one, after its first half, only at the very end of a line of 4097 (n <= 70) or 2n+1 bytes of filler, cut short by the end of that line, twice, three times, in the other letter case, with every other letter upper-cased, and the empty line. "+
		"HISTORY families (%d patterns: %s; x strides %v): alternate: ONE instance per mode makes %d calls cycling with the stride through 10-12 lines of very different lengths and field counts (k+50 fields of 80 bytes, k one-byte fields, k-1 fields, empty, 300-byte fields, only delimiters, %d bytes without delimiter, a match at the start and at the end of a line of %d bytes, 2k+1 fields, upper case); every result must equal the result of a fresh instance of a freshly compiled pattern and the specification, and all %d retained slices are re-read at the end; two-instances: three instances created through matchers.ToFactory(d).CreateInstance() from one compiled pattern are called alternately on different lines (%d calls) and all retained slices are re-read at the end.",
		ln[len(ln)-1], strings.Join(ll, ", "), cn[len(cn)-1], skipNs, cn[len(cn)-1], len(literalKinds), literalKinds, literalPlaces,
		len(histPatterns()), strings.Join(hp, ", "), histStrides, histCalls, huge, huge, histCalls, histCalls)
}
