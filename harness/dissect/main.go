// Harness dissect decides C12: for every dissect pattern of a small grammar
// and every line over a small alphabet the result of the real
// pkg/matchers/dissect equals a reference written from the statement, in
// case-sensitive and ignore-case mode, and results handed out earlier are not
// altered by later matches of the same instance (all index slices of an
// instance are retained and re-read after the instance has matched the whole
// line set twice: several pool refills).
package main

import (
	"encoding/json"
	"fmt"
	"strconv"
	"strings"
	"time"

	"rare/pkg/matchers/dissect"
	"verif/runner"
)

// ---------------------------------------------------------------- patterns

const (
	kNamed     = 0 // %{x} / %{y}
	kSkipEmpty = 1 // %{}
	kSkipNamed = 2 // %{?n} / %{?m}
)

type tokSpec struct {
	Kind  int    `json:"kind"`
	Name  string `json:"name"`
	Until string `json:"until"` // quoted with strconv.QuoteToASCII in Case
}

type patSpec struct {
	Prefix string
	Toks   []tokSpec
}

func (p patSpec) text() string {
	var sb strings.Builder
	sb.WriteString(p.Prefix)
	for _, t := range p.Toks {
		sb.WriteString("%{")
		switch t.Kind {
		case kNamed:
			sb.WriteString(t.Name)
		case kSkipNamed:
			sb.WriteString("?" + t.Name)
		}
		sb.WriteString("}")
		sb.WriteString(t.Until)
	}
	return sb.String()
}

type passDef struct {
	tag       string
	prefixes  []string
	untils    []string // non-empty trailing literals
	alpha     []string // line alphabet (symbols)
	maxLen    int      // line length in symbols
	errShapes bool
}

func passes(quick bool) []passDef {
	main := passDef{
		tag:       "main",
		prefixes:  []string{"", "a", "ab", "é", "A", "É", "aé"},
		untils:    []string{" ", "b", "ab", "é", "B", "É", "bé"},
		alpha:     []string{"a", "b", "A", " ", "é", "É"},
		maxLen:    7,
		errShapes: true,
	}
	// literals containing a '%' that does not start a token ("any literals")
	percent := passDef{
		tag:      "percent",
		prefixes: []string{"", "%", "a%"},
		untils:   []string{"%", "b%", "%a", "b%a"},
		alpha:    []string{"a", "b", "%"},
		maxLen:   6,
	}
	// a 3-byte UTF-8 literal against lines of arbitrary bytes that differ from
	// it only in bytes >= 0x80 (byte-wise case folding must not identify them)
	bytesPass := passDef{
		tag:      "bytes",
		prefixes: []string{"", "あ", "a"},
		untils:   []string{"あ", "b"},
		alpha:    []string{"a", "b", "\xc3", "\xe3", "\x81", "\x82"},
		maxLen:   5,
	}
	// self-overlapping literals (a proper prefix of the literal is also a
	// suffix of it: aa, aab, abab, bb, bab) against long lines over a small
	// alphabet with both letter cases: a search that does not restart right
	// after the first byte of a failed partial match loses occurrences such as
	// "aab" in "aaab"
	overlap := passDef{
		tag:      "overlap",
		prefixes: []string{"", "aa", "aab", "abab", "aA", "bAb"},
		untils:   []string{"aab", "bb", "abab", "aa", "bab", "Aab"},
		alpha:    []string{"a", "b", "A", "B"},
		maxLen:   8,
	}
	// letter literals of one and two bytes in lower, upper and mixed case
	// (b, B, aB, Ab ...) against lines that contain BOTH cases of every letter
	// occurring in a literal, plus a neutral non-letter that is also a
	// delimiter: a per-literal shortcut of the ignore-case search (decided by
	// length, by "folding leaves it alone", by the case the literal was written
	// in) loses the match at the other-case occurrence or splits at a later one
	letters := passDef{
		tag:      "letters",
		prefixes: []string{"", "b", "B", "aB", "Ab"},
		untils:   []string{"b", "B", "a", "A", "aB", "Ab", "-"},
		alpha:    []string{"a", "A", "b", "B", "-"},
		maxLen:   7,
	}
	// the ends of the folded range and the bytes 0x20 away from non-letters:
	// z/Z are folded, '@' (0x40) and '`' (0x60), '[' (0x5B) and '{' (0x7B) are
	// distinct bytes although they differ by the same bit as A/a and Z/z
	foldEdge := passDef{
		tag:      "fold-edge",
		prefixes: []string{"", "Z", "@", "{"},
		untils:   []string{"z", "Z", "@", "`", "[", "{"},
		alpha:    []string{"z", "Z", "@", "`", "[", "{"},
		maxLen:   6,
	}
	if quick {
		main.maxLen = 5
		percent.maxLen = 5
		bytesPass.maxLen = 4
		overlap.maxLen = 6
		letters.maxLen = 5
		foldEdge.maxLen = 4
	}
	return []passDef{main, percent, bytesPass, overlap, letters, foldEdge}
}

func forEachPattern(p *passDef, f func(ps patSpec) bool) {
	kinds := []int{kNamed, kSkipEmpty, kSkipNamed}
	names1 := []string{"x", "", "n"}
	names2 := []string{"y", "", "m"}
	lastUntils := append(append([]string{}, p.untils...), "")
	for _, pre := range p.prefixes {
		// no token at all: the pattern is its leading literal
		if !f(patSpec{Prefix: pre}) {
			return
		}
		for _, k1 := range kinds {
			for _, u1 := range lastUntils {
				if !f(patSpec{pre, []tokSpec{{k1, names1[k1], u1}}}) {
					return
				}
			}
			for _, u1 := range p.untils {
				for _, k2 := range kinds {
					for _, u2 := range lastUntils {
						if !f(patSpec{pre, []tokSpec{{k1, names1[k1], u1}, {k2, names2[k2], u2}}}) {
							return
						}
					}
				}
			}
		}
	}
}

type errShape struct {
	Pattern string
	Class   string
}

func errorShapes() []errShape {
	var out []errShape
	for _, pre := range []string{"", "a", "é", "ab "} {
		for _, s := range []string{"%{x}%{y}", "%{x}%{y}b", "%{}%{y}", "%{x}%{?n}", "%{x} %{y}%{z}", "%{}%{}", "%{?n}%{?m}é"} {
			out = append(out, errShape{pre + s, "adjacent-tokens"})
		}
		for _, s := range []string{"%{x", "%{", "%{x} %{y", "%{x}b%{", "%{?n", "%{x}é%{y"} {
			out = append(out, errShape{pre + s, "unclosed-token"})
		}
		for _, s := range []string{"%{x} %{x}", "%{x}b%{y}a%{x}", "%{x} %{?n} %{x}", "%{x} %{x}b", "%{x}é%{}b%{x}"} {
			out = append(out, errShape{pre + s, "duplicate-name"})
		}
	}
	return out
}

// ------------------------------------------------------------------- lines

type lineSet struct {
	s     []string
	b     [][]byte
	lowA  []string // lowerASCII
	lowU  []string // lowerLatin
	ascii []bool
}

func buildLines(alpha []string, maxLen int) *lineSet {
	ls := &lineSet{}
	add := func(s string) {
		ls.s = append(ls.s, s)
		ls.b = append(ls.b, []byte(s))
		ls.lowA = append(ls.lowA, lowerASCII(s))
		ls.lowU = append(ls.lowU, lowerLatin(s))
		ls.ascii = append(ls.ascii, isASCII(s))
	}
	for l := 0; l <= maxLen; l++ {
		cur := make([]int, l)
		for {
			var sb strings.Builder
			for _, c := range cur {
				sb.WriteString(alpha[c])
			}
			add(sb.String())
			i := l - 1
			for ; i >= 0; i-- {
				cur[i]++
				if cur[i] < len(alpha) {
					break
				}
				cur[i] = 0
			}
			if i < 0 {
				break
			}
		}
	}
	return ls
}

// -------------------------------------------------------------------- case

// Case is the replayable description of one violation.
type Case struct {
	Kind       string    `json:"kind"` // line | sequence | compile
	Pass       string    `json:"pass"`
	MaxLen     int       `json:"max_len"`
	Pattern    string    `json:"pattern"` // quoted (strconv.QuoteToASCII)
	Prefix     string    `json:"prefix"`  // quoted
	Toks       []tokSpec `json:"toks"`    // Until quoted
	IgnoreCase bool      `json:"ignore_case"`
	Line       string    `json:"line,omitempty"` // quoted
	Class      string    `json:"class,omitempty"`
}

func q(s string) string { return strconv.QuoteToASCII(s) }
func unq(s string) string {
	u, err := strconv.Unquote(s)
	if err != nil {
		panic(fmt.Sprintf("bad quoted string %s: %v", s, err))
	}
	return u
}

func mkCase(kind string, p *passDef, ps patSpec, ic bool, line string) Case {
	c := Case{Kind: kind, Pass: p.tag, MaxLen: p.maxLen, Pattern: q(ps.text()), Prefix: q(ps.Prefix), IgnoreCase: ic}
	for _, t := range ps.Toks {
		c.Toks = append(c.Toks, tokSpec{t.Kind, t.Name, q(t.Until)})
	}
	if kind == "line" {
		c.Line = q(line)
	}
	return c
}

// ---------------------------------------------------------------- checking

func panicClass(r any) string {
	s := fmt.Sprint(r)
	switch {
	case strings.Contains(s, "index out of range"):
		return "index-out-of-range"
	case strings.Contains(s, "slice bounds out of range"):
		return "slice-bounds-out-of-range"
	case strings.Contains(s, "nil pointer"):
		return "nil-dereference"
	case strings.Contains(s, "pool not large enough"):
		return "pool-not-large-enough"
	}
	return "other"
}

type compiled struct {
	p        *passDef
	ps       patSpec
	text     string
	toks     []refTok // as written
	toksA    []refTok // literals lowered, ASCII only
	toksU    []refTok // literals lowered incl. É
	prefA    string
	prefU    string
	patASCII bool // all literals are ASCII
	nCap     int
	inst     [2]*dissect.DissectInstance // 0: case-sensitive, 1: ignore-case
}

var modeName = [2]string{"case-sensitive", "ignore-case"}

// compileReal compiles with the real CompileEx, turning a panic into an error
// string.
func compileReal(text string, ic bool) (d *dissect.Dissect, err error, pan any) {
	defer func() {
		if r := recover(); r != nil {
			pan = r
		}
	}()
	d, err = dissect.CompileEx(text, ic)
	return
}

func compileUnit(w *runner.W, p *passDef, ps patSpec) *compiled {
	c := &compiled{p: p, ps: ps, text: ps.text(), patASCII: isASCII(ps.Prefix)}
	c.prefA, c.prefU = lowerASCII(ps.Prefix), lowerLatin(ps.Prefix)
	wantNames := map[string]int{}
	for _, t := range ps.Toks {
		capt := t.Kind == kNamed
		c.toks = append(c.toks, refTok{t.Until, capt})
		c.toksA = append(c.toksA, refTok{lowerASCII(t.Until), capt})
		c.toksU = append(c.toksU, refTok{lowerLatin(t.Until), capt})
		if !isASCII(t.Until) {
			c.patASCII = false
		}
		if capt {
			c.nCap++
			// "Tokens are extracted by both name and index (in the order
			// they appear)" (docs/usage/dissect.md)
			wantNames[t.Name] = c.nCap
		}
	}
	sub := ""
	if strings.Contains(strings.ReplaceAll(c.text, "%{", ""), "%") {
		sub = "/percent-in-literal"
	}
	for m := 0; m < 2; m++ {
		d, err, pan := compileReal(c.text, m == 1)
		cs := mkCase("compile", p, ps, m == 1, "")
		if pan != nil {
			w.Violation("C12/panic/CompileEx/"+panicClass(pan), fmt.Sprintf("CompileEx(%q, ignoreCase=%v) panicked: %v", c.text, m == 1, pan), cs)
			return nil
		}
		if err != nil || d == nil {
			w.Violation("C12/compile/valid-pattern-rejected"+sub, fmt.Sprintf("CompileEx(%q, ignoreCase=%v) = error %v; the pattern is a leading literal %q followed by %d well-formed tokens separated by non-empty literals", c.text, m == 1, err, ps.Prefix, len(ps.Toks)), cs)
			return nil
		}
		got := d.SubexpNameTable()
		same := len(got) == len(wantNames)
		for k, v := range wantNames {
			if got[k] != v {
				same = false
			}
		}
		if !same {
			w.Violation("C12/compile/name-table-wrong"+sub, fmt.Sprintf("CompileEx(%q, ignoreCase=%v).SubexpNameTable() = %v, want %v", c.text, m == 1, got, wantNames), cs)
			return nil
		}
		c.inst[m] = d.CreateInstance()
	}
	return c
}

func (c *compiled) find(w *runner.W, m int, lb []byte, line string) (res []int, ok bool) {
	defer func() {
		if r := recover(); r != nil {
			w.Violation("C12/panic/FindSubmatchIndex/"+modeName[m]+"/"+panicClass(r),
				fmt.Sprintf("pattern %q %s line %q: panic: %v", c.text, modeName[m], line, r), mkCase("line", c.p, c.ps, m == 1, line))
			res, ok = nil, false
		}
	}()
	return c.inst[m].FindSubmatchIndex(lb), true
}

// structural: "all offsets are ordered and within the line"
func (c *compiled) structural(w *runner.W, m int, got []int, line string) bool {
	if got == nil {
		return true
	}
	bad := ""
	if len(got) != 2+2*c.nCap {
		bad = fmt.Sprintf("result has %d offsets, want %d", len(got), 2+2*c.nCap)
	} else {
		prev := got[0]
		if prev < 0 {
			bad = "negative offset"
		}
		for k := 2; k < len(got) && bad == ""; k++ {
			if got[k] < prev {
				bad = fmt.Sprintf("offset %d (%d) lies before its predecessor (%d)", k, got[k], prev)
			}
			prev = got[k]
		}
		if bad == "" && got[1] < prev {
			bad = fmt.Sprintf("end of {0} (%d) lies before the last group (%d)", got[1], prev)
		}
		if bad == "" && got[1] > len(line) {
			bad = fmt.Sprintf("end of {0} (%d) lies beyond the line (%d bytes)", got[1], len(line))
		}
	}
	if bad == "" {
		return true
	}
	w.Violation("C12/offsets/"+modeName[m]+"/not-ordered-or-outside-line",
		fmt.Sprintf("pattern %q %s line %q: result %v: %s", c.text, modeName[m], line, got, bad), mkCase("line", c.p, c.ps, m == 1, line))
	return false
}

func (c *compiled) diffClass(got, want []int) string {
	if c.p.tag == "percent" {
		return "wrong-result" // one defect class: a '%' inside a literal
	}
	switch {
	case got == nil:
		return "match-missed"
	case want == nil:
		return "spurious-match"
	case len(got) != len(want):
		return "wrong-group-count"
	}
	groupsSame := true
	for k := 2; k < len(got); k++ {
		if got[k] != want[k] {
			groupsSame = false
		}
	}
	if groupsSame {
		return "wrong-span-of-0"
	}
	return "wrong-group-offsets"
}

type unitState struct {
	buf1, buf2, buf3 []int      // scratch of the reference (capacity is never exceeded)
	ret              [2][][]int // every slice ever returned, in call order
	snap             [2][]int32 // their contents at the time of the call; stride 2+2*nCap; first = -1: nil
	first            [2][]int32 // index into ret of the first-pass result of line i
	accepted         int64
	matched          [2]int64
}

func (c *compiled) keep(st *unitState, m int, got []int) int32 {
	st.ret[m] = append(st.ret[m], got)
	stride := 2 + 2*c.nCap
	base := len(st.snap[m])
	for k := 0; k < stride; k++ {
		st.snap[m] = append(st.snap[m], -1)
	}
	if got != nil {
		for k := 0; k < stride && k < len(got); k++ {
			st.snap[m][base+k] = int32(got[k])
		}
	}
	return int32(len(st.ret[m]) - 1)
}

func (c *compiled) sameAsSnap(st *unitState, m int, idx int32, cur []int) bool {
	stride := 2 + 2*c.nCap
	sn := st.snap[m][int(idx)*stride : int(idx)*stride+stride]
	if cur == nil {
		return sn[0] == -1
	}
	if sn[0] == -1 {
		return false
	}
	for k := 0; k < stride && k < len(cur); k++ {
		if int32(cur[k]) != sn[k] {
			return false
		}
	}
	return true
}

func newState() *unitState {
	return &unitState{buf1: make([]int, 0, 16), buf2: make([]int, 0, 16), buf3: make([]int, 0, 16)}
}

// checkLine runs one line through both instances and applies the per-line
// oracle. It returns the outcome hash.
func (c *compiled) checkLine(w *runner.W, ls *lineSet, i int, st *unitState) uint64 {
	line, lb := ls.s[i], ls.b[i]
	h := uint64(1469598103934665603)
	mix := func(v int) { h = (h ^ uint64(v+7)) * 1099511628211 }
	mix(len(c.ps.Toks))

	// ---- case-sensitive: "the result equals the specification"
	gotC, okC := c.find(w, 0, lb, line)
	st.first[0] = append(st.first[0], c.keep(st, 0, gotC))
	if okC {
		wantC := refMatch(c.ps.Prefix, c.toks, line, st.buf1)
		if c.structural(w, 0, gotC, line) && !equalInts(gotC, wantC) {
			w.Violation("C12/"+c.p.tag+"/case-sensitive/"+c.diffClass(gotC, wantC),
				fmt.Sprintf("pattern %q case-sensitive line %q: got %v, specification gives %v", c.text, line, gotC, wantC), mkCase("line", c.p, c.ps, false, line))
		}
		if gotC != nil {
			st.matched[0]++
		}
		mix(0)
		for _, v := range gotC {
			mix(v)
		}
	}

	// ---- ignore-case
	gotI, okI := c.find(w, 1, lb, line)
	st.first[1] = append(st.first[1], c.keep(st, 1, gotI))
	if !okI {
		return h
	}
	if gotI != nil {
		st.matched[1]++
	}
	mix(1)
	for _, v := range gotI {
		mix(v)
	}
	if !c.structural(w, 1, gotI, line) {
		return h
	}
	if gotI != nil && gotC == nil && len(c.ps.Toks) == 2 && w.WantSample() {
		w.Sample(map[string]any{"pattern": c.text, "line": line, "case_sensitive": gotC, "ignore_case": gotI})
	}
	inputClass := "ascii"
	switch {
	case !c.patASCII:
		inputClass = "non-ascii-literal"
	case !ls.ascii[i]:
		inputClass = "non-ascii-line"
	}
	// "With ignore-case any line matched case-sensitively still matches"
	if okC && gotC != nil && gotI == nil {
		w.Violation("C12/ignore-case/case-sensitive-match-lost/"+inputClass,
			fmt.Sprintf("pattern %q line %q: matches case-sensitively (%v) but not with ignore-case", c.text, line, gotC), mkCase("line", c.p, c.ps, true, line))
		return h
	}
	wantA := refMatch(c.prefA, c.toksA, ls.lowA[i], st.buf2)
	if c.patASCII && ls.ascii[i] {
		// "for ASCII text the result equals the case-sensitive result on
		// lower-cased pattern and line"
		if !equalInts(gotI, wantA) {
			w.Violation("C12/"+c.p.tag+"/ignore-case/ascii/"+c.diffClass(gotI, wantA),
				fmt.Sprintf("pattern %q ignore-case line %q: got %v, the case-sensitive specification on lower-cased pattern and line gives %v", c.text, line, gotI, wantA), mkCase("line", c.p, c.ps, true, line))
		}
		return h
	}
	// Non-ASCII text: the statement fixes only the superset clause above and
	// the general shape of a result (first occurrences, left to right). Two
	// readings of "ignore-case" are accepted for a returned match: folding of
	// A-Z only, and simple Unicode folding (É = é). A line that matches under
	// neither must not match.
	if gotI == nil {
		if c.patASCII && wantA != nil {
			// every literal is ASCII, so its occurrences in the line do not
			// depend on how non-ASCII text is folded
			w.Violation("C12/"+c.p.tag+"/ignore-case/non-ascii-line/match-missed",
				fmt.Sprintf("pattern %q (ASCII literals) ignore-case line %q: no match, specification on A-Z-lowered pattern and line gives %v", c.text, line, wantA), mkCase("line", c.p, c.ps, true, line))
		} else if wantA != nil {
			st.accepted++ // statement silent: not demanded
		}
		return h
	}
	if equalInts(gotI, wantA) {
		return h
	}
	wantU := refMatch(c.prefU, c.toksU, ls.lowU[i], st.buf3)
	if c.p.tag == "bytes" {
		wantU = wantA // lines are arbitrary bytes, not text: only A-Z folding is meaningful
	}
	if !equalInts(gotI, wantU) {
		cl := c.diffClass(gotI, wantA)
		w.Violation("C12/"+c.p.tag+"/ignore-case/"+inputClass+"/"+cl+"-under-every-folding",
			fmt.Sprintf("pattern %q ignore-case line %q: got %v; folding A-Z only gives %v, simple Unicode folding gives %v", c.text, line, gotI, wantA, wantU), mkCase("line", c.p, c.ps, true, line))
	}
	return h
}

// runUnit executes one pattern: both instances match the whole line set in
// enumeration order and again in reverse order; every returned slice is kept
// and compared with its recorded contents at the end.
func runUnit(w *runner.W, p *passDef, ps patSpec, ls *lineSet, st *unitState) {
	c := compileUnit(w, p, ps)
	if c == nil {
		w.Eval(false)
		return
	}
	for m := 0; m < 2; m++ {
		st.ret[m] = st.ret[m][:0]
		st.snap[m] = st.snap[m][:0]
		st.first[m] = st.first[m][:0]
		st.matched[m] = 0
	}
	st.accepted = 0
	cur := q(c.text)
	w.SetCase(func() any { return map[string]any{"pattern": cur, "pass": p.tag} })
	for i := range ls.s {
		w.OutcomeHash(c.checkLine(w, ls, i, st))
		if i&1023 == 0 {
			w.Tick()
		}
	}
	// second pass, reverse order: "forall sequences of lines matched by one
	// instance" — the result for a line does not depend on what the instance
	// matched before
	for m := 0; m < 2; m++ {
		reported := false
		for i := len(ls.s) - 1; i >= 0; i-- {
			got, ok := c.find(w, m, ls.b[i], ls.s[i])
			if !ok {
				continue
			}
			c.keep(st, m, got)
			if !reported && !c.sameAsSnap(st, m, st.first[m][i], got) {
				reported = true
				cs := mkCase("sequence", p, ps, m == 1, "")
				cs.Class = "history"
				w.Violation("C12/sequence/"+modeName[m]+"/result-depends-on-history",
					fmt.Sprintf("pattern %q %s: line %q gave %v when matched after the whole line set, but something else the first time", c.text, modeName[m], ls.s[i], got), cs)
			}
		}
	}
	// "results returned for earlier lines are not altered by matching later
	// lines": re-read every slice ever handed out
	for m := 0; m < 2; m++ {
		for k, r := range st.ret[m] {
			if !c.sameAsSnap(st, m, int32(k), r) {
				cs := mkCase("sequence", p, ps, m == 1, "")
				cs.Class = "altered"
				stride := 2 + 2*c.nCap
				w.Violation("C12/pool/"+modeName[m]+"/earlier-result-altered",
					fmt.Sprintf("pattern %q %s: result #%d of %d calls was %v when returned and reads %v after the later calls", c.text, modeName[m], k, len(st.ret[m]), st.snap[m][k*stride:k*stride+stride], r), cs)
				break
			}
		}
		w.Add("slices_retained_and_reread", int64(len(st.ret[m])))
		w.Max("max_calls_on_one_instance", int64(len(st.ret[m])))
		w.Max("max_matches_of_one_instance", 2*st.matched[m])
	}
	n := int64(2 * len(ls.s))
	w.Evals += n
	w.Nontrivial += st.matched[0] + st.matched[1]
	w.Tick()
	w.Add("patterns", 1)
	w.Add("ignore_case_non_ascii_misses_not_demanded", st.accepted)
}

func runErrShape(w *runner.W, e errShape) {
	for m := 0; m < 2; m++ {
		d, err, pan := compileReal(e.Pattern, m == 1)
		cs := Case{Kind: "compile", Pattern: q(e.Pattern), IgnoreCase: m == 1, Class: e.Class}
		if pan != nil {
			w.Violation("C12/panic/CompileEx/"+panicClass(pan), fmt.Sprintf("CompileEx(%q, ignoreCase=%v) panicked: %v", e.Pattern, m == 1, pan), cs)
			w.Eval(false)
			continue
		}
		// "adjacent-token and unclosed-token errors" (quantifier); duplicate
		// capture names cannot both be "the" named key
		if err == nil {
			w.Violation("C12/compile/malformed-pattern-accepted/"+e.Class, fmt.Sprintf("CompileEx(%q, ignoreCase=%v) succeeded (%v); a pattern with %s must be rejected", e.Pattern, m == 1, d != nil, e.Class), cs)
		}
		w.Eval(err != nil)
		w.Outcome("compile-error", e.Class, fmt.Sprint(err))
	}
	w.Add("error_shapes", 1)
}

func worker(w *runner.W) {
	var caseNo int64
	st := newState()
	for _, p := range passes(w.Quick()) {
		p := p
		ls := buildLines(p.alpha, p.maxLen)
		stop := false
		forEachPattern(&p, func(ps patSpec) bool {
			caseNo++
			if !w.Owns(caseNo) {
				return true
			}
			if w.Expired() {
				stop = true
				return false
			}
			runUnit(w, &p, ps, ls, st)
			return true
		})
		if stop {
			return
		}
		if p.errShapes {
			for _, e := range errorShapes() {
				caseNo++
				if !w.Owns(caseNo) {
					continue
				}
				runErrShape(w, e)
			}
		}
	}
	sizeWorker(w, &caseNo)
}

func replay(w *runner.W, raw json.RawMessage) {
	var c Case
	if err := json.Unmarshal(raw, &c); err != nil {
		panic(err)
	}
	if c.Kind == "size" {
		var d sizeDesc
		if err := json.Unmarshal(raw, &d); err != nil {
			panic(err)
		}
		replaySize(w, d)
		return
	}
	if c.Kind == "compile" && c.Prefix == "" && len(c.Toks) == 0 && c.Class != "" {
		runErrShape(w, errShape{unq(c.Pattern), c.Class})
		return
	}
	var p *passDef
	for _, pd := range passes(false) {
		if pd.tag == c.Pass {
			pd := pd
			p = &pd
		}
	}
	if p == nil {
		panic("unknown pass " + c.Pass)
	}
	p.maxLen = c.MaxLen
	ps := patSpec{Prefix: unq(c.Prefix)}
	for _, t := range c.Toks {
		ps.Toks = append(ps.Toks, tokSpec{t.Kind, t.Name, unq(t.Until)})
	}
	st := newState()
	switch c.Kind {
	case "compile":
		compileUnit(w, p, ps)
	case "line":
		cu := compileUnit(w, p, ps)
		if cu == nil {
			return
		}
		line := unq(c.Line)
		ls := &lineSet{s: []string{line}, b: [][]byte{[]byte(line)}, lowA: []string{lowerASCII(line)}, lowU: []string{lowerLatin(line)}, ascii: []bool{isASCII(line)}}
		cu.checkLine(w, ls, 0, st)
	default:
		runUnit(w, p, ps, buildLines(p.alpha, p.maxLen), st)
	}
}

func main() {
	runner.Main(&runner.Spec{
		Name:       "dissect",
		Properties: []string{"C12"},
		Level:      "exploration",
		Rule: func(prop, tier string) string {
			ps := passes(tier != "thorough")
			var sb strings.Builder
			sb.WriteString("every dissect pattern = leading literal + 0..2 tokens (named %{x}/%{y}, %{}, %{?n}) each followed by a trailing literal (the last one optionally none), compiled case-sensitive and ignore-case with the real CompileEx, x every line (all strings of up to L symbols over the pass alphabet), in six passes: ")
			for i, p := range ps {
				if i > 0 {
					sb.WriteString("; ")
				}
				fmt.Fprintf(&sb, "%s: leading literals %q, trailing literals %q, line alphabet %q, L=%d", p.tag, p.prefixes, p.untils, p.alpha, p.maxLen)
			}
			sb.WriteString(". Each instance matches the whole line set in order and again in reverse order (several thousand calls, > 1024 so the int pool is refilled many times); every slice ever returned is retained and compared with its recorded contents at the end. Plus malformed patterns (adjacent tokens, unclosed token, duplicate capture name; 4 leading literals x 18 shapes x 2 modes) which must be rejected. One evaluation = one (pattern, mode, line) or one malformed pattern; non-trivial = the real matcher returned a match (for malformed patterns: returned an error).")
			sb.WriteString(sizeRule(tier != "thorough"))
			return sb.String()
		},
		Assumptions: func(string) []string {
			return []string{
				"a '%' that is not followed by '{' is literal text (docs/usage/dissect.md: \"Anything in a %{} is a variable token\")",
				"for text that is not ASCII the statement fixes only: (1) a case-sensitive match is still a match with ignore-case, (2) the shape of a result; a returned ignore-case match is accepted if it equals the specification under folding of A-Z only or under simple Unicode folding (É=é); an ignore-case miss of a non-ASCII literal that no case-sensitive match contradicts is counted (ignore_case_non_ascii_misses_not_demanded), not reported",
				"the caller does not modify the line bytes while results are in use (the matcher keeps offsets only)",
			}
		},
		Worker:         worker,
		Replay:         replay,
		HangSeconds:    60,
		QuickBudget:    3 * time.Minute,
		ThoroughBudget: 20 * time.Minute,
	})
}
