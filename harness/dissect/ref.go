package main

// Reference model of dissect matching, written from the statement of C12
// only. It imports nothing from rare (and deliberately not even
// strings.Index: the search is a naive scan).

// refTok is one %{token} of a pattern: whether it captures, and the literal
// that follows it ("" = none: only legal for the last token).
type refTok struct {
	until   string
	capture bool
}

// refIndex returns the byte offset of the first occurrence of needle in hay,
// or -1. The empty needle occurs at offset 0.
func refIndex(hay, needle string) int {
	n := len(needle)
	for i := 0; i+n <= len(hay); i++ {
		if hay[i:i+n] == needle {
			return i
		}
	}
	return -1
}

// refMatch is the specification. It appends the index pairs to out[:0] and
// returns them, or returns nil when the line does not match.
//
//	[0],[1]   the {0} span
//	[2k],[2k+1] the k-th capturing token
func refMatch(prefix string, toks []refTok, line string, out []int) []int {
	out = append(out[:0], 0, 0)
	// "locate the first occurrence of the leading literal"
	p := refIndex(line, prefix)
	if p < 0 {
		return nil
	}
	// "{0} spans from the leading literal ..."
	out[0] = p
	cur := p + len(prefix)
	for _, t := range toks {
		end := len(line) // "(to end of line if it has none)"
		if t.until != "" {
			// "take the text up to the first following occurrence of its
			// trailing literal"
			e := refIndex(line[cur:], t.until)
			if e < 0 {
				return nil
			}
			end = cur + e
		}
		// "%{} and %{?name} consume without capturing"
		if t.capture {
			out = append(out, cur, end)
		}
		cur = end + len(t.until)
	}
	// "... through the last delimiter"
	out[1] = cur
	return out
}

// lowerASCII lowers A-Z only; every other byte is kept. Byte length is
// preserved, so offsets into the lowered text are offsets into the original.
func lowerASCII(s string) string {
	b := []byte(s)
	for i, c := range b {
		if 'A' <= c && c <= 'Z' {
			b[i] = c + ('a' - 'A')
		}
	}
	return string(b)
}

// lowerLatin is lowerASCII plus the one non-ASCII cased letter of the
// harness alphabet: U+00C9 (C3 89) -> U+00E9 (C3 A9). It is what simple
// Unicode case folding does to texts over the harness alphabet; byte length is
// preserved as well.
func lowerLatin(s string) string {
	b := []byte(lowerASCII(s))
	for i := 0; i+1 < len(b); i++ {
		if b[i] == 0xC3 && b[i+1] == 0x89 {
			b[i+1] = 0xA9
			i++
		}
	}
	return string(b)
}

func isASCII(s string) bool {
	for i := 0; i < len(s); i++ {
		if s[i] >= 0x80 {
			return false
		}
	}
	return true
}

func equalInts(a, b []int) bool {
	if (a == nil) != (b == nil) || len(a) != len(b) {
		return false
	}
	for i := range a {
		if a[i] != b[i] {
			return false
		}
	}
	return true
}
