// Harness litmus pins the semantics of the controlled runtime (vrt): each
// litmus program is explored completely and the set of observed outcomes must
// be exactly the expected set. A failure here is a harness error, never a
// property verdict. Built through the overlay (package rare/verifrt).
package main

import (
	"fmt"
	"os"
	"sort"
	"strings"
	"time"
	"unsafe"

	vrt "rare/verifrt"
	"verif/mc"
)

type outcome struct {
	val    string
	faults string
	block  string
}

func explore(bound int, opts vrt.Options, body func(out *string)) (map[string]int, int64) {
	res := map[string]int{}
	ex := mc.New(bound)
	for ex.Next() {
		var out string
		r := vrt.Run(ex, opts, func() { body(&out) })
		ex.EndExecution()
		key := out
		if len(r.Faults) > 0 {
			f := r.Faults[0]
			if i := strings.IndexByte(f, '\n'); i >= 0 {
				f = f[:i]
			}
			key += " FAULT:" + f
		}
		if len(r.Blocked) > 0 {
			key += " BLOCKED:" + fmt.Sprint(len(r.Blocked))
		}
		res[key]++
	}
	return res, ex.Executions
}

var failed bool

func expect(name string, got map[string]int, want ...string) {
	var keys []string
	for k := range got {
		keys = append(keys, k)
	}
	sort.Strings(keys)
	sort.Strings(want)
	if strings.Join(keys, "|") != strings.Join(want, "|") {
		fmt.Printf("LITMUS FAIL %s: got %q want %q\n", name, keys, want)
		failed = true
	}
}

func main() {
	start := time.Now()
	var total int64
	run := func(name string, bound int, opts vrt.Options, body func(out *string), want ...string) {
		got, n := explore(bound, opts, body)
		total += n
		expect(name, got, want...)
	}
	no := vrt.Options{}
	race := vrt.Options{Race: true}

	// lost update on a word accessed through "atomic" load/store pairs
	lost := func(out *string) {
		var x uint64
		var wg vrt.WaitGroup
		for i := 0; i < 2; i++ {
			wg.Add(1)
			vrt.Go(func() {
				vrt.AtomicPoint(unsafe.Pointer(&x), false, "x")
				v := x
				vrt.AtomicPoint(unsafe.Pointer(&x), true, "x")
				x = v + 1
				wg.Done()
			})
		}
		wg.Wait()
		*out = fmt.Sprint(x)
	}
	run("lost-update/unbounded", -1, no, lost, "1", "2")
	run("lost-update/bound0", 0, no, lost, "2")
	run("lost-update/bound1", 1, no, lost, "1", "2")

	// rendezvous: the sender cannot pass the send before the receiver arrived
	run("rendezvous", -1, no, func(out *string) {
		c := vrt.MakeChan[int](0)
		stage := 0
		vrt.Go(func() { c.Send(7); stage = 2 })
		vrt.Yield()
		if stage != 0 {
			*out = "sender passed an unbuffered send without receiver"
			return
		}
		v := c.Recv()
		*out = fmt.Sprint(v)
	}, "7")

	// buffered channel: FIFO, blocks when full
	run("buffered", -1, no, func(out *string) {
		c := vrt.MakeChan[int](1)
		done := vrt.MakeChan[bool](0)
		sent := 0
		vrt.Go(func() {
			for i := 1; i <= 3; i++ {
				c.Send(i)
				sent = i
			}
			c.Close()
			done.Send(true)
		})
		vrt.Yield()
		if sent > 1 {
			*out = "sent more than capacity"
			return
		}
		s := ""
		for {
			v, ok := c.Recv2()
			if !ok {
				break
			}
			s += fmt.Sprint(v)
		}
		done.Recv()
		*out = s
	}, "123")

	// close wakes every receiver; receive from closed gives zero,false
	run("close-wakes-all", 2, no, func(out *string) {
		c := vrt.MakeChan[int](0)
		var wg vrt.WaitGroup
		n := 0
		for i := 0; i < 2; i++ {
			wg.Add(1)
			vrt.Go(func() {
				if _, ok := c.Recv2(); !ok {
					n++
				}
				wg.Done()
			})
		}
		c.Close()
		wg.Wait()
		*out = fmt.Sprint(n)
	}, "2")

	// select: both ready cases are explored; default only when none is ready
	run("select-both-ready", -1, no, func(out *string) {
		a, b := vrt.MakeChan[int](1), vrt.MakeChan[int](1)
		a.Send(1)
		b.Send(2)
		i, v, _ := vrt.Select(false, vrt.RecvCase(a), vrt.RecvCase(b))
		*out = fmt.Sprint(i, vrt.ValOf(a, v))
	}, "0 1", "1 2")
	run("select-default", -1, no, func(out *string) {
		a := vrt.MakeChan[int](1)
		i, _, _ := vrt.Select(true, vrt.RecvCase(a))
		j, _, _ := vrt.Select(true, vrt.SendCase(a, 5))
		k, _, _ := vrt.Select(true, vrt.SendCase(a, 6))
		*out = fmt.Sprint(i, j, k, a.Len())
	}, "-1 0 -1 1")
	// select with an unbuffered partner arriving later
	run("select-rendezvous", -1, no, func(out *string) {
		a, b := vrt.MakeChan[int](0), vrt.MakeChan[int](0)
		vrt.Go(func() { b.Send(9) })
		i, v, ok := vrt.Select(false, vrt.RecvCase(a), vrt.RecvCase(b))
		*out = fmt.Sprint(i, vrt.ValOf(b, v), ok)
	}, "1 9 true")

	// deadlock and runtime faults are reported
	run("deadlock", -1, no, func(out *string) {
		c := vrt.MakeChan[int](0)
		c.Recv()
	}, " BLOCKED:1")
	run("send-on-closed", -1, no, func(out *string) {
		c := vrt.MakeChan[int](1)
		c.Close()
		c.Send(1)
	}, " FAULT:send on closed channel")
	run("double-close", -1, no, func(out *string) {
		c := vrt.MakeChan[int](1)
		c.Close()
		c.Close()
	}, " FAULT:close of closed channel")
	run("negative-wg", -1, no, func(out *string) {
		var wg vrt.WaitGroup
		wg.Done()
	}, " FAULT:negative WaitGroup counter")
	run("goroutine-panic", -1, no, func(out *string) {
		vrt.Go(func() { panic("boom") })
		vrt.Yield()
	}, " FAULT:panic in goroutine g1: boom", " FAULT:panic in goroutine g1: boom BLOCKED:1")

	// mutex gives mutual exclusion
	run("mutex", -1, no, func(out *string) {
		var m vrt.Mutex
		var wg vrt.WaitGroup
		in, bad, x := 0, false, 0
		for i := 0; i < 2; i++ {
			wg.Add(1)
			vrt.Go(func() {
				m.Lock()
				in++
				vrt.Yield()
				if in != 1 {
					bad = true
				}
				x++
				in--
				m.Unlock()
				wg.Done()
			})
		}
		wg.Wait()
		*out = fmt.Sprint(bad, x)
	}, "false 2")

	// timers: After fires only when the clock is advanced; Sleep orders wake-ups
	timers := func(out *string) {
		c := vrt.MakeChan[int](2)
		vrt.Go(func() { vrt.Sleep(200 * time.Millisecond); c.Send(2) })
		vrt.Go(func() { vrt.Sleep(100 * time.Millisecond); c.Send(1) })
		a := c.Recv()
		b := c.Recv()
		*out = fmt.Sprint(a, b, vrt.NowNoJump())
	}
	run("timers/bound0", 0, no, timers, "1 2 200ms")
	// with deviations the clock may advance before the second sleeper started
	run("timers/bound2", 2, no, timers, "1 2 200ms", "1 2 300ms", "2 1 200ms", "2 1 300ms")
	run("timer-vs-work", 1, no, func(out *string) {
		fired := false
		vrt.AfterFunc(100*time.Millisecond, func() { fired = true })
		vrt.Yield()
		a := fired
		vrt.Yield()
		*out = fmt.Sprint(a, fired)
	}, "false false", "false true", "true true")

	// happens-before race detector
	run("race/plain", 2, race, func(out *string) {
		x := 0
		done := vrt.MakeChan[bool](0)
		vrt.Go(func() { *vrt.Wr(&x, "x") = 1; done.Send(true) })
		*vrt.Wr(&x, "x") = 2
		done.Recv()
	}, " FAULT:data race on x: write/write")
	run("race/mutex-protected", 2, race, func(out *string) {
		x := 0
		var m vrt.Mutex
		done := vrt.MakeChan[bool](0)
		vrt.Go(func() { m.Lock(); *vrt.Wr(&x, "x") = 1; m.Unlock(); done.Send(true) })
		m.Lock()
		*vrt.Wr(&x, "x") = 2
		m.Unlock()
		done.Recv()
		*out = fmt.Sprint(*vrt.Rd(&x, "x") > 0)
	}, "true")
	run("race/chan-ordered", 2, race, func(out *string) {
		x := 0
		c := vrt.MakeChan[bool](1)
		vrt.Go(func() { *vrt.Wr(&x, "x") = 1; c.Send(true) })
		c.Recv()
		*out = fmt.Sprint(*vrt.Rd(&x, "x"))
	}, "1")
	run("race/semaphore", 3, race, func(out *string) {
		// a channel of capacity 1 used as a lock: k-th receive happens before the (k+1)-th send completes
		x := 0
		sema := vrt.MakeChan[struct{}](1)
		var wg vrt.WaitGroup
		for i := 0; i < 2; i++ {
			wg.Add(1)
			vrt.Go(func() {
				sema.Send(struct{}{})
				*vrt.Wr(&x, "x") = *vrt.Rd(&x, "x") + 1
				sema.Recv()
				wg.Done()
			})
		}
		wg.Wait()
		*out = fmt.Sprint(*vrt.Rd(&x, "x"))
	}, "2")
	run("race/waitgroup", 2, race, func(out *string) {
		x := 0
		var wg vrt.WaitGroup
		wg.Add(1)
		vrt.Go(func() { *vrt.Wr(&x, "x") = 1; wg.Done() })
		wg.Wait()
		*out = fmt.Sprint(*vrt.Rd(&x, "x"))
	}, "1")
	run("race/plain-vs-atomic", 2, race, func(out *string) {
		var x uint64
		done := vrt.MakeChan[bool](0)
		vrt.Go(func() {
			vrt.AtomicPoint(unsafe.Pointer(&x), true, "")
			x++
			done.Send(true)
		})
		_ = *vrt.Rd(&x, "x")
		done.Recv()
	}, " FAULT:data race on x: write/read", " FAULT:data race on x: read/write")
	run("race/unbuffered-both-directions", 2, race, func(out *string) {
		x, y := 0, 0
		c := vrt.MakeChan[bool](0)
		vrt.Go(func() { *vrt.Wr(&x, "x") = 1; c.Send(true); _ = *vrt.Rd(&y, "y") })
		*vrt.Wr(&y, "y") = 1
		c.Recv()
		_ = *vrt.Rd(&x, "x")
	}, "")

	// slice elements behind a copied header: the header is copied under the
	// lock, the elements are read after the unlock while the owner compacts
	// the backing array in place under the lock
	run("race/slice-header-copied-under-lock", 2, race, func(out *string) {
		files := make([]string, 2, 4)
		files[0], files[1] = "a", "b"
		var m vrt.Mutex
		done := vrt.MakeChan[bool](0)
		vrt.Go(func() {
			m.Lock()
			files = vrt.Append(files[:0], "files[]", files[1:]...) // drop the first element in place
			m.Unlock()
			done.Send(true)
		})
		m.Lock()
		snapshot := files
		m.Unlock()
		_ = strings.Join(vrt.RdSlice(snapshot, "files[]"), ",")
		done.Recv()
	}, " FAULT:data race on files[]: read/write", "") // (empty: the owner ran first, the snapshot was taken after its unlock)
	run("race/slice-read-under-lock", 2, race, func(out *string) {
		files := make([]string, 2, 4)
		files[0], files[1] = "a", "b"
		var m vrt.Mutex
		done := vrt.MakeChan[bool](0)
		vrt.Go(func() {
			m.Lock()
			files = vrt.Append(files[:0], "files[]", files[1:]...)
			m.Unlock()
			done.Send(true)
		})
		m.Lock()
		*out = fmt.Sprint(len(strings.Join(vrt.RdSlice(files, "files[]"), ",")) > 0)
		m.Unlock()
		done.Recv()
	}, "true")

	// a whole-object write (*p = T{}) after the object was handed to another
	// goroutine through a lock-protected hand-over
	run("race/whole-object-write-after-publish", 2, race, func(out *string) {
		type obj struct{ a, b int }
		o := &obj{}
		var m vrt.Mutex
		var shared *obj
		done := vrt.MakeChan[bool](0)
		vrt.Go(func() {
			m.Lock()
			p := shared
			m.Unlock()
			if p != nil {
				_ = *vrt.Rd(&p.b, "obj.b")
			}
			done.Send(true)
		})
		m.Lock()
		shared = o
		m.Unlock()
		*vrt.WrAll(o, "obj.*") = obj{} // reset after publishing
		done.Recv()
	}, " FAULT:data race on obj.b: write/read", "") // (empty: the reader saw shared == nil)
	run("race/whole-object-write-before-publish", 2, race, func(out *string) {
		type obj struct{ a, b int }
		o := &obj{}
		var m vrt.Mutex
		var shared *obj
		done := vrt.MakeChan[bool](0)
		vrt.Go(func() {
			m.Lock()
			p := shared
			m.Unlock()
			if p != nil {
				_ = *vrt.Rd(&p.b, "obj.b")
			}
			done.Send(true)
		})
		*vrt.WrAll(o, "obj.*") = obj{}
		m.Lock()
		shared = o
		m.Unlock()
		done.Recv()
		*out = "ok"
	}, "ok")

	// determinism: the same vector twice gives the same trace
	{
		ex := mc.New(2)
		n := 0
		for ex.Next() {
			var out string
			r := vrt.Run(ex, vrt.Options{Trace: true}, func() { lost(&out) })
			ex.EndExecution()
			vec := ex.Vector()
			rp := mc.NewReplay(vec)
			rp.Next()
			var out2 string
			r2 := vrt.Run(rp, vrt.Options{Trace: true}, func() { lost(&out2) })
			if out != out2 || strings.Join(r.Trace, ",") != strings.Join(r2.Trace, ",") {
				fmt.Printf("LITMUS FAIL replay: vector %v gave %q/%v then %q/%v\n", vec, out, r.Trace, out2, r2.Trace)
				failed = true
			}
			n++
		}
		total += int64(2 * n)
	}
	if failed {
		fmt.Println("HARNESS-ERROR: vrt litmus suite failed")
		os.Exit(2)
	}
	fmt.Printf("litmus ok: %d executions in %.1fs\n", total, time.Since(start).Seconds())
}
