package main

// SIZE families of C03 on the real binary with its real buffers (128 KiB read
// buffer, batches of 1000 lines, small batch and match channels): one or two
// simple corpus shapes parametrised by a size n, combined with a handful of
// tunings. The oracle is the sequential reference fold of reference.go over
// the big input and identity across the tunings of a unit.

import (
	"bytes"
	"fmt"
	"math"
	"os"
	"path/filepath"
	"sort"
	"strconv"
	"strings"
)

const (
	famLines   = "lines"     // n input lines (and n distinct keys)
	famLength  = "length"    // one line / one key of n bytes
	famFiles   = "files"     // the same 120 lines divided among n files
	famCount   = "magnitude" // increments of magnitude n
	linesFiles = 120         // lines of the files family
)

// the tail after a third bar is padding
const sizeRegex = `^([^|]*)\|([^|]*)\|([^|]*)(\|.*)?$`

func sizePrograms() []*Program {
	return []*Program{
		{Name: "sz-histo", Cmd: "histogram", Kind: "counter", Match: sizeRegex,
			Extract: [][]part{tpl(g(1)), tpl(g(3))}, HasCSV: true, Sized: true, Limit: 5},
		{Name: "sz-table", Cmd: "table", Kind: "table", Match: sizeRegex,
			Extract: [][]part{tpl(g(2)), tpl(g(1)), tpl(g(3))}, HasCSV: true, Sized: true, Limit: 20},
		{Name: "sz-reduce", Cmd: "reduce", Kind: "accum", Match: sizeRegex, Groups: []int{1},
			Accs: []accSpec{{"s", "sum", 3, ""}, {"n", "count", 0, ""}, {"mx", "max", 3, "-1000"}, {"mn", "min", 3, "1000"}}, HasCSV: true, Sized: true, Limit: 20},
		{Name: "sz-reduce-ordered", Cmd: "reduce", Kind: "accum", Match: sizeRegex, Groups: []int{2},
			Accs: []accSpec{{"last", "last", 1, ""}, {"cat", "cat", 3, "^"}}, OrderSensitive: true, HasCSV: true, Sized: true, Limit: 20},
		{Name: "sz-analyze", Cmd: "analyze", Kind: "numerical", Flags: []string{"-x", "-q", "50", "-q", "90"}, Match: sizeRegex,
			Extract: [][]part{tpl(g(3))}, Sized: true},
	}
}

// ---------------------------------------------------------------- sizes

func triples(ks ...int) []int {
	var out []int
	for _, k := range ks {
		out = append(out, 1<<k-1, 1<<k, 1<<k+1)
	}
	return out
}

func upTo(n int) []int {
	var out []int
	for i := 0; i <= n; i++ {
		out = append(out, i)
	}
	return out
}

func sorted(a []int) []int {
	sort.Ints(a)
	return a
}

func lineCounts(quick bool) []int {
	s := append(upTo(70), triples(7, 8, 9, 10, 11, 12)...)
	s = append(s, 999, 1000, 1001, 1999, 2000, 2001, 4999, 5000, 5001)
	if !quick {
		s = append(s, triples(13, 14, 15, 16)...)
	}
	return sorted(s)
}

func lineLengths(quick bool) []int {
	s := append(upTo(70), triples(7, 8, 9, 10, 11, 12, 16, 17, 18)...)
	if !quick {
		s = append(s, triples(13, 14, 15, 19)...)
	}
	return sorted(s)
}

// magnitudes: 2^k-1, 2^k, 2^k+1 for k = 7..62 and MaxInt64
func magnitudes() []int64 {
	var out []int64
	for k := 7; k <= 62; k++ {
		out = append(out, int64(1)<<k-1, int64(1)<<k, int64(1)<<k+1)
	}
	return append(out, math.MaxInt64)
}

func sizeClass(fam string, n int64) string {
	switch fam {
	case famLines:
		if n <= 1000 { // one batch of the default size
			return "n0-1000"
		}
		return "n1001-"
	case famLength:
		if n < 131072 { // shorter than the read buffer
			return "b0-131071"
		}
		return "b131072-"
	case famFiles:
		if n <= 3 {
			return "f1-3"
		}
		return "f4-40"
	}
	if n < 1<<31 {
		return "below-2^31"
	}
	return "from-2^31"
}

// ---------------------------------------------------------------- corpora

// sizedLines builds the corpus of a family/shape/size. Element i carries i.
func sizedLines(fam, shape string, n int64) ([]string, bool) {
	var out []string
	switch fam {
	case famLines, famFiles:
		cnt := int(n)
		if fam == famFiles {
			cnt = linesFiles
		}
		for i := 0; i < cnt; i++ {
			switch shape {
			case "distinct": // n distinct keys
				out = append(out, fmt.Sprintf("k%07d|s%d|%d", i, i%3, i+1))
			case "few": // seven keys
				out = append(out, fmt.Sprintf("k%d|s%d|%d", i%7, i%3, i+1))
			default:
				panic(shape)
			}
		}
	case famLength:
		// one line of n bytes, first or between two short lines
		var long string
		switch {
		case strings.HasPrefix(shape, "key"):
			if n < 5 {
				return nil, false
			}
			long = "K" + strings.Repeat("y", int(n)-5) + "|s|2"
		case strings.HasPrefix(shape, "pad"):
			if n < 6 {
				return nil, false
			}
			long = "k|s|2|" + strings.Repeat("p", int(n)-6)
		default:
			panic(shape)
		}
		if strings.HasSuffix(shape, "first") {
			out = []string{long, "a|s|1", "a|s|3"}
		} else {
			out = []string{"a|s|1", long, "a|s|3"}
		}
	case famCount:
		// sums that stay in range: v + v, or v + (MaxInt64 - v)
		m := n
		if n > math.MaxInt64/2 {
			m = math.MaxInt64 - n
		}
		out = []string{fmt.Sprintf("a|r|%d", n), fmt.Sprintf("a|r|%d", m), fmt.Sprintf("b|q|-%d", n), "c|r|1"}
	default:
		panic(fam)
	}
	return out, true
}

// ---------------------------------------------------------------- units

// sizeUnit is the sharding unit: one program on one corpus, all its tunings.
type sizeUnit struct {
	fam, shape string
	n          int64
	p          *Program
}

type sizeRun struct {
	t     Tuning
	files int
	split string
	input string
}

func sizeUnits(quick bool) []sizeUnit {
	progs := sizePrograms()
	byName := map[string]*Program{}
	for _, p := range progs {
		byName[p.Name] = p
	}
	var out []sizeUnit
	for _, n := range lineCounts(quick) {
		for _, shape := range []string{"distinct", "few"} {
			for _, p := range progs {
				if shape == "distinct" && (p.Name == "sz-reduce-ordered" || p.Name == "sz-analyze") {
					continue // they do not look at the key: one shape is enough
				}
				if p.OrderSensitive && n > 16385 {
					continue // its text accumulator copies the text per line: quadratic
				}
				out = append(out, sizeUnit{famLines, shape, int64(n), p})
			}
		}
	}
	for _, n := range lineLengths(quick) {
		for _, shape := range []string{"key-first", "key-mid", "pad-first", "pad-mid"} {
			if _, ok := sizedLines(famLength, shape, int64(n)); !ok {
				continue
			}
			for _, pn := range []string{"sz-histo", "sz-table", "sz-reduce"} {
				if quick && n <= 70 && (pn != "sz-histo" || strings.HasSuffix(shape, "first")) {
					continue // quick: short lines with the histogram, between two lines
				}
				out = append(out, sizeUnit{famLength, shape, int64(n), byName[pn]})
			}
		}
	}
	for n := 1; n <= 40; n++ {
		for _, p := range progs {
			out = append(out, sizeUnit{famFiles, "few", int64(n), p})
		}
	}
	for _, v := range magnitudes() {
		for _, pn := range []string{"sz-histo", "sz-table", "sz-reduce"} {
			out = append(out, sizeUnit{famCount, "pair", v, byName[pn]})
		}
	}
	return out
}

// runs lists the handful of configurations of a unit.
func (u sizeUnit) runs() []sizeRun {
	one := func(w, b, bb, g int) sizeRun { return sizeRun{Tuning{w, b, bb, 1, g}, 1, "chunks", "files"} }
	switch u.fam {
	case famFiles:
		k := int(u.n)
		if u.p.OrderSensitive {
			return []sizeRun{{Tuning{1, 7, 4, 1, 2}, k, "chunks", "files"}, {Tuning{1, 1000, 1, 1, 1}, k, "rr", "files"}}
		}
		return []sizeRun{
			{Tuning{2, 7, 4, 1, 4}, k, "chunks", "files"},
			{Tuning{3, 1000, 1, 2, 2}, k, "rr", "files"},
			{Tuning{2, 7, 4, 3, 4}, k, "chunks", "files"},
			{Tuning{3, 1000, 1, 3, 2}, k, "rr", "files"},
		}
	case famCount:
		return []sizeRun{one(1, 1000, 4, 1), one(3, 1, 1, 4)}
	}
	if u.p.OrderSensitive {
		// "any accumulator with one reader and one worker"
		return []sizeRun{one(1, 1000, 4, 1), one(1, 1, 1, 2), one(1, 7, 4, 4)}
	}
	if u.fam == famLength && u.n <= 70 {
		return []sizeRun{one(1, 1000, 4, 1), {Tuning{3, 1, 1, 3, 4}, 3, "chunks", "files"}}
	}
	return []sizeRun{
		one(1, 1000, 4, 1),
		{Tuning{3, 1, 1, 3, 4}, 3, "chunks", "files"},
		{Tuning{3, 7, 4, 2, 4}, 3, "rr", "files"},
		{Tuning{3, 7, 4, 1, 2}, 1, "chunks", "dash"},
	}
}

var sizeCorpus = &Corpus{Name: "size"}

// layoutSized writes the lines into k files (contiguous chunks or round
// robin) and returns the file arguments and the lines in file-argument order.
func (e *env) layoutSized(lines []string, k int, split string) (dir string, files []string, seq []string) {
	e.seq++
	dir = filepath.Join(e.tmp, fmt.Sprintf("s%d", e.seq))
	if err := os.MkdirAll(dir, 0o755); err != nil {
		panic(err)
	}
	n := len(lines)
	perFile := make([][]string, k)
	for i, l := range lines {
		f := i % k
		if split == "chunks" {
			f = 0
			if n > 0 {
				f = i * k / n
			}
		}
		perFile[f] = append(perFile[f], l)
	}
	for f := 0; f < k; f++ {
		var b bytes.Buffer
		for _, l := range perFile[f] {
			b.WriteString(l)
			b.WriteByte('\n')
		}
		name := fmt.Sprintf("f%02d.log", f)
		if err := os.WriteFile(filepath.Join(dir, name), b.Bytes(), 0o644); err != nil {
			panic(err)
		}
		files = append(files, name)
		seq = append(seq, perFile[f]...)
	}
	os.WriteFile(filepath.Join(dir, "stdin.sentinel"), []byte("SENTINEL|s|1000000\n"), 0o644)
	return
}

func (u sizeUnit) caseOf(r sizeRun) Case {
	return Case{Program: u.p.Name, Corpus: "size", Family: u.fam, Shape: u.shape, Size: u.n, Files: r.files, Split: r.split,
		Input: r.input, Out: "snapshot+csvfile", Tuning: r.t}
}

// runSizeUnit runs every configuration of a unit against the unit's baseline
// (csv and exit status byte for byte, snapshot modulo column padding).
func (e *env) runSizeUnit(u sizeUnit) {
	var base *observation
	if u.fam == famFiles {
		base = e.sizeBase(u)
	}
	for i, r := range u.runs() {
		cs := u.caseOf(r)
		e.w.SetCase(func() any { return cs })
		o := e.runSized(cs, base)
		if i == 0 && u.fam != famFiles {
			base = o // the first configuration is the baseline of the others
		}
	}
}

// sizeBase is the observation the runs of a unit are compared with: the
// first configuration of the unit; for the files family the 120 lines in ONE
// file ("how the same lines are divided among files"), computed once per
// worker and program. None for the order-sensitive program in the files
// family (another division is another sequence).
func (e *env) sizeBase(u sizeUnit) *observation {
	first := u.caseOf(u.runs()[0])
	key := ""
	if u.fam == famFiles {
		if u.p.OrderSensitive {
			return nil
		}
		first.Files, first.Split, first.Tuning = 1, "chunks", Tuning{1, 1000, 4, 1, 1}
		key = "size/files/" + u.p.Name
		if b, ok := e.base[key]; ok {
			return b
		}
	}
	lines, _ := sizedLines(first.Family, first.Shape, first.Size)
	dir, files, _ := e.layoutSized(lines, first.Files, first.Split)
	defer os.RemoveAll(dir)
	e.w.SetCase(func() any { return first })
	o, res := e.run(u.p, sizeCorpus, dir, files, first)
	if res.startErr != nil {
		panic(res.startErr)
	}
	if res.hang {
		o = nil
	}
	e.w.Add("baseline_runs", 1)
	if key != "" {
		e.base[key] = o
	}
	return o
}

// runSized executes one case of a size family and applies the oracle.
func (e *env) runSized(cs Case, base *observation) *observation {
	p := e.progs[cs.Program]
	if p == nil || !p.Sized {
		panic("not a size-family program: " + cs.Program)
	}
	lines, ok := sizedLines(cs.Family, cs.Shape, cs.Size)
	if !ok {
		panic("shape not applicable")
	}
	dir, files, seq := e.layoutSized(lines, cs.Files, cs.Split)
	defer os.RemoveAll(dir)
	ref := fold(p, seq)
	e.w.Add("size_family_cases", 1)
	return e.check(p, sizeCorpus, dir, files, cs, ref, base)
}

// ---------------------------------------------------------------- snapshot

// checkSnapshotSized compares what the snapshot shows of a big aggregate
// with the reference: the numbers of the summary line, and every displayed
// key / row with its counts (the display is limited to p.Limit entries; keys
// of the size families hold no spaces).
func checkSnapshotSized(p *Program, ref *Ref, o *observation) (sig, msg string) {
	lines := strings.Split(o.body, "\n")
	if len(lines) == 0 || !strings.HasPrefix(lines[len(lines)-1], "Matched: ") {
		return "no-summary", "no summary line (Matched: ...) in the snapshot"
	}
	summary := lines[len(lines)-1]
	var got []int64
	for _, s := range intRe.FindAllString(summary, -1) {
		v, _ := strconv.ParseInt(s, 10, 64)
		got = append(got, v)
	}
	if want := ref.summaryInts(p); fmt.Sprint(got) != fmt.Sprint(want) {
		return "summary-counts", fmt.Sprintf("summary line %q carries the numbers %v, reference %v (matched, read, group/row/column counts, ignored, errors)", summary, got, want)
	}
	var body []string
	for _, l := range lines[:len(lines)-1] {
		if strings.TrimSpace(l) != "" {
			body = append(body, l)
		}
	}
	min := func(a, b int) int {
		if a < b {
			return a
		}
		return b
	}
	seen := map[string]bool{}
	switch p.Kind {
	case "counter":
		// the histogram shows the p.Limit keys with the greatest counts (--sort
		// value is the documented default) among those with a count >= 0
		var counts []int64
		for _, v := range ref.counter {
			if v >= 0 {
				counts = append(counts, v)
			}
		}
		sort.Slice(counts, func(i, j int) bool { return counts[i] > counts[j] })
		want := min(p.Limit, len(counts))
		if len(body) != want {
			return "line-count", fmt.Sprintf("%d histogram lines, reference has %d keys with a count >= 0 and the display holds %d", len(body), len(counts), p.Limit)
		}
		var shown []int64
		for _, l := range body {
			f := strings.Fields(l)
			v, ok := ref.counter[f[0]]
			if !ok || len(f) < 2 || f[1] != strconv.FormatInt(v, 10) || seen[f[0]] {
				return "key-count", fmt.Sprintf("histogram line %q does not show a key of the reference with its count (or shows it twice)", clip(l, 200))
			}
			seen[f[0]] = true
			shown = append(shown, v)
		}
		sort.Slice(shown, func(i, j int) bool { return shown[i] > shown[j] })
		if fmt.Sprint(shown) != fmt.Sprint(counts[:want]) {
			return "not-the-greatest", fmt.Sprintf("the histogram shows the counts %v, the greatest counts of the reference are %v", shown, counts[:want])
		}
	case "table":
		if len(ref.table.rows) == 0 {
			return "", ""
		}
		if want := min(p.Limit, len(ref.table.rows)) + 1; len(body) != want {
			return "line-count", fmt.Sprintf("%d table lines, reference has %d rows and the display holds %d", len(body), len(ref.table.rows), p.Limit)
		}
		cols := strings.Fields(body[0])
		for _, cn := range cols {
			if !ref.table.cols[cn] {
				return "column-unexpected", fmt.Sprintf("header %q names %q, which is not a column of the reference", clip(body[0], 200), cn)
			}
		}
		for _, l := range body[1:] {
			f := strings.Fields(l)
			if !ref.table.rows[f[0]] || seen[f[0]] || len(f) != len(cols)+1 {
				return "row-cells", fmt.Sprintf("table line %q is not a row of the reference with one cell per column (or is shown twice)", clip(l, 200))
			}
			seen[f[0]] = true
			for i, cn := range cols {
				if f[i+1] != strconv.FormatInt(ref.table.cells[[2]string{f[0], cn}], 10) {
					return "row-cells", fmt.Sprintf("table line %q: cell of column %q is not the reference count %d", clip(l, 200), cn, ref.table.cells[[2]string{f[0], cn}])
				}
			}
		}
	case "numerical":
		return checkAnalyze(p, ref, body)
	case "accum":
		// (reduce counts the header as one of its --num lines: 19 groups are shown; accepted)
		if len(body) != min(p.Limit, len(ref.accum))+1 && len(body) != min(p.Limit-1, len(ref.accum))+1 {
			return "line-count", fmt.Sprintf("%d table lines, reference has %d groups and the display holds %d", len(body), len(ref.accum), p.Limit)
		}
		for _, l := range body[1:] {
			f := strings.Fields(l)
			data, ok := ref.accum[f[0]]
			if !ok || seen[f[0]] || len(f) != len(data)+1 {
				return "group-values", fmt.Sprintf("table line %q is not a group of the reference with its values (or is shown twice)", clip(l, 200))
			}
			seen[f[0]] = true
			for i := range data {
				if f[i+1] != data[i] {
					return "group-values", fmt.Sprintf("table line %q: accumulator %s is not the reference value %q", clip(l, 200), p.Accs[i].Name, clip(data[i], 200))
				}
			}
		}
	}
	return "", ""
}

func sizeRule(tier string) string {
	quick := tier != "thorough"
	var pn []string
	for _, p := range sizePrograms() {
		pn = append(pn, p.Name+"=`"+shellJoin(p.args())+"`")
	}
	units := sizeUnits(quick)
	runs := 0
	for _, u := range units {
		runs += len(u.runs())
	}
	lc, ll := lineCounts(quick), lineLengths(quick)
	return fmt.Sprintf("SIZE families (%d units, %d processes) with the programs {%s}: ", len(units), runs, strings.Join(pn, "; ")) +
		fmt.Sprintf("(1) n input lines `key|s<i%%3>|<i+1>`, n in 0..70, 2^k-1..2^k+1, 999..1001, 1999..2001, 4999..5001 up to %d (%d sizes), with n distinct keys and with seven keys, every program x {1 worker, batch 1000, 1 reader, 1 file; 3 workers, batch 1, batch-buffer 1, 3 readers, 3 files (contiguous thirds); 3 workers, batch 7, 2 readers, 3 files (round robin); standard input (`-`), 3 workers, batch 7}, the order-sensitive program with one worker and one reader x batch {1000,1,7} (up to 16385 lines: its text accumulator is quadratic); ", lc[len(lc)-1], len(lc)) +
		fmt.Sprintf("(2) one line of n bytes, n in 5..70 and 2^k-1..2^k+1 up to %d (read buffer 128 KiB: 131071..131073, 262143..262145), the length in the key or in padding behind the increment, as the first line or between two short lines, histogram/table/reduce x the same tunings"+map[bool]string{true: " (lengths up to 70: histogram, between two lines, two tunings)", false: ""}[quick]+"; ", ll[len(ll)-1]) +
		fmt.Sprintf("(3) the same %d lines divided among n = 1..40 files in contiguous chunks (--readers 1, 3) and round robin (--readers 2, 3), compared with the run over ONE file; (4) increments of magnitude 2^k-1, 2^k, 2^k+1 for k = 7..62 and 2^63-1 with sums that stay in range (v+v or v+(2^63-1-v), and -v), histogram/table/reduce x {1 worker, batch 1000; 3 workers, batch 1}. Each process: csv against the reference fold (every key), summary line, every displayed key/row (the snapshot shows 5 / 20 of them), exit status; csv and exit status byte for byte and snapshot modulo column padding against the first configuration of the unit; ", linesFiles)
}
