package main

import (
	"bytes"
	"context"
	"fmt"
	"os"
	"os/exec"
	"strings"
	"syscall"
	"time"
)

type runResult struct {
	stdout, stderr string
	exit           int
	signaled       bool
	hang           bool
	startErr       error
}

const processTimeout = 60 * time.Second

// runRare runs the binary once: explicit environment, working directory dir,
// standard input from the named file. A process that does not exit within
// 60 s is killed and reported as a hang; nothing else depends on time.
func runRare(bin, dir, home string, args []string, stdinFile string, gomaxprocs int) runResult {
	ctx, cancel := context.WithTimeout(context.Background(), processTimeout)
	defer cancel()
	cmd := exec.CommandContext(ctx, bin, args...)
	cmd.Dir = dir
	cmd.Env = []string{
		fmt.Sprintf("GOMAXPROCS=%d", gomaxprocs),
		"TZ=UTC",
		"HOME=" + home,
		"PATH=/usr/bin:/bin",
		"TERM=dumb",
		"LANG=C",
	}
	var res runResult
	in, err := os.Open(stdinFile)
	if err != nil {
		res.startErr = err
		return res
	}
	defer in.Close()
	cmd.Stdin = in
	var so, se bytes.Buffer
	cmd.Stdout = &so
	cmd.Stderr = &se
	cmd.WaitDelay = 5 * time.Second
	err = cmd.Run()
	res.stdout, res.stderr = so.String(), se.String()
	if ctx.Err() == context.DeadlineExceeded {
		res.hang = true
		return res
	}
	if err != nil {
		ee, ok := err.(*exec.ExitError)
		if !ok {
			res.startErr = err
			return res
		}
		res.exit = ee.ExitCode()
		if ws, ok := ee.Sys().(syscall.WaitStatus); ok && ws.Signaled() {
			res.signaled = true
		}
	}
	return res
}

func shellJoin(args []string) string {
	var sb strings.Builder
	for i, a := range args {
		if i > 0 {
			sb.WriteByte(' ')
		}
		if a != "" && strings.IndexFunc(a, func(r rune) bool {
			return !(r == '/' || r == '.' || r == '-' || r == '_' || r == '=' || (r >= '0' && r <= '9') || (r >= 'a' && r <= 'z') || (r >= 'A' && r <= 'Z'))
		}) < 0 {
			sb.WriteString(a)
		} else {
			sb.WriteString("'" + strings.ReplaceAll(a, "'", `'\''`) + "'")
		}
	}
	return sb.String()
}
