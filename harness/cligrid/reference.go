package main

// Independent sequential reference aggregation for C03 and an own RFC 4180
// parser. Imports nothing from rare and does not use encoding/csv.

import (
	"fmt"
	"math"
	"regexp"
	"sort"
	"strconv"
	"strings"
)

// ---------------------------------------------------------------- RFC 4180

// parseCSV parses RFC 4180 text: records end in CRLF or LF (the last one
// optionally), fields are separated by commas, a field is either unquoted
// (no quote, comma, CR or LF inside) or enclosed in double quotes with ""
// for a quote; inside quotes every byte (comma, CR, LF) is data.
func parseCSV(s string) ([][]string, error) {
	var recs [][]string
	var rec []string
	i := 0
	n := len(s)
	if n == 0 {
		return nil, nil
	}
	for {
		// one field
		var f strings.Builder
		if i < n && s[i] == '"' {
			i++
			for {
				if i >= n {
					return nil, fmt.Errorf("unterminated quoted field in record %d", len(recs)+1)
				}
				if s[i] == '"' {
					if i+1 < n && s[i+1] == '"' {
						f.WriteByte('"')
						i += 2
						continue
					}
					i++
					break
				}
				f.WriteByte(s[i])
				i++
			}
			if i < n && s[i] != ',' && s[i] != '\n' && !(s[i] == '\r' && i+1 < n && s[i+1] == '\n') {
				return nil, fmt.Errorf("data after closing quote in record %d", len(recs)+1)
			}
		} else {
			for i < n && s[i] != ',' && s[i] != '\n' {
				if s[i] == '\r' {
					if i+1 < n && s[i+1] == '\n' {
						break
					}
					return nil, fmt.Errorf("bare CR in unquoted field in record %d", len(recs)+1)
				}
				if s[i] == '"' {
					return nil, fmt.Errorf("quote in unquoted field in record %d", len(recs)+1)
				}
				f.WriteByte(s[i])
				i++
			}
		}
		rec = append(rec, f.String())
		if i < n && s[i] == ',' {
			i++
			if i == n { // trailing comma: one more empty field
				rec = append(rec, "")
				recs = append(recs, rec)
				return recs, nil
			}
			continue
		}
		// end of record
		recs = append(recs, rec)
		rec = nil
		if i < n && s[i] == '\r' {
			i++
		}
		if i < n && s[i] == '\n' {
			i++
		}
		if i >= n {
			return recs, nil
		}
	}
}

// ---------------------------------------------------------------- templates

// A template is a list of parts: a literal or a reference to a capture group.
type part struct {
	Lit   string
	Group int // -1: literal
}

func g(n int) part         { return part{Group: n} }
func lit(s string) part    { return part{Lit: s, Group: -1} }
func tpl(p ...part) []part { return p }

// rareSyntax renders the template in rare's expression syntax. Literals are
// restricted to characters without meaning in that syntax.
func rareSyntax(t []part) string {
	var sb strings.Builder
	for _, p := range t {
		if p.Group >= 0 {
			fmt.Fprintf(&sb, "{%d}", p.Group)
		} else {
			if strings.ContainsAny(p.Lit, "{}\\\"") {
				panic("literal needs escaping: " + p.Lit)
			}
			sb.WriteString(p.Lit)
		}
	}
	return sb.String()
}

func evalTpl(t []part, groups []string) string {
	var sb strings.Builder
	for _, p := range t {
		if p.Group >= 0 {
			if p.Group < len(groups) {
				sb.WriteString(groups[p.Group])
			}
		} else {
			sb.WriteString(p.Lit)
		}
	}
	return sb.String()
}

// ---------------------------------------------------------------- programs

type accSpec struct {
	Name    string
	Op      string // sum | count | max | min | last | cat
	Group   int    // capture group the accumulator reads
	Initial string // "" = default 0
}

func (a accSpec) rare() string {
	var expr string
	switch a.Op {
	case "sum":
		expr = fmt.Sprintf("{sumi {.} {%d}}", a.Group)
	case "count":
		expr = "{sumi {.} 1}"
	case "max":
		expr = fmt.Sprintf("{maxi {.} {%d}}", a.Group)
	case "min":
		expr = fmt.Sprintf("{mini {.} {%d}}", a.Group)
	case "last":
		expr = fmt.Sprintf("{%d}", a.Group)
	case "cat":
		expr = fmt.Sprintf("{.}{%d};", a.Group)
	default:
		panic(a.Op)
	}
	if a.Initial != "" {
		return a.Name + ":" + a.Initial + "=" + expr
	}
	return a.Name + "=" + expr
}

type Program struct {
	Name    string
	Cmd     string   // rare sub-command
	Kind    string   // counter | table | subkey | numerical | accum
	Flags   []string // command specific flags
	Match   string
	Extract [][]part
	// ignore when capture group IgnGroup equals IgnEq (rendered as -i '{eq {g} v}')
	IgnGroup int
	IgnEq    string
	// reduce
	Groups []int // capture groups used as group columns (named g<i>)
	Accs   []accSpec
	// OrderSensitive accumulators are only run with one reader and one worker
	OrderSensitive bool
	Corpora        []string
	HasCSV         bool
	// spark --cols smaller than the number of columns: see FINDINGS.md
	TrimCols int
	// Sized programs belong to the size families (size.go): the snapshot shows
	// at most Limit keys / rows of an aggregate that may hold thousands
	Sized bool
	Limit int
}

const lineRegex = `^([^|]*)\|([^|]*)\|(.*)$`

func programs() []*Program {
	all := []string{"A", "B", "C", "D", "E", "F"}
	clean := []string{"A", "B", "D", "E", "F"}
	return []*Program{
		{Name: "histo-count", Cmd: "histogram", Kind: "counter", Flags: []string{"-n", "50"}, Match: lineRegex,
			Extract: [][]part{tpl(g(1))}, Corpora: all, HasCSV: true},
		{Name: "histo-inc", Cmd: "histogram", Kind: "counter", Flags: []string{"-n", "50", "-x"}, Match: lineRegex,
			Extract: [][]part{tpl(g(1)), tpl(g(3))}, Corpora: all, HasCSV: true},
		{Name: "histo-ignore", Cmd: "histogram", Kind: "counter", Flags: []string{"-n", "50"}, Match: lineRegex,
			Extract: [][]part{tpl(g(1), lit(" / "), g(2))}, IgnGroup: 2, IgnEq: "r2", Corpora: all, HasCSV: true},
		{Name: "table-inc", Cmd: "table", Kind: "table", Match: lineRegex,
			Extract: [][]part{tpl(g(1)), tpl(g(2)), tpl(g(3))}, Corpora: all, HasCSV: true},
		{Name: "table-count", Cmd: "table", Kind: "table", Flags: []string{"-x"}, Match: lineRegex,
			Extract: [][]part{tpl(g(2)), tpl(g(1))}, Corpora: all, HasCSV: true},
		{Name: "heatmap-inc", Cmd: "heatmap", Kind: "table", Flags: []string{"--cols", "20"}, Match: lineRegex,
			Extract: [][]part{tpl(g(2)), tpl(g(1)), tpl(g(3))}, Corpora: all, HasCSV: true},
		{Name: "spark-fit", Cmd: "spark", Kind: "table", Flags: []string{"--cols", "20"}, Match: lineRegex,
			Extract: [][]part{tpl(g(2)), tpl(g(1)), tpl(g(3))}, Corpora: all, HasCSV: true},
		{Name: "spark-cols2", Cmd: "spark", Kind: "table", Flags: []string{"--cols", "2", "--sort-rows", "text"}, Match: lineRegex,
			Extract: [][]part{tpl(g(1), lit("/"), g(2)), tpl(g(2))}, Corpora: []string{"A", "B"}, HasCSV: true, TrimCols: 2},
		{Name: "bars", Cmd: "bargraph", Kind: "subkey", Match: lineRegex,
			Extract: [][]part{tpl(g(1)), tpl(g(2)), tpl(g(3))}, Corpora: all, HasCSV: true},
		{Name: "bars-stacked", Cmd: "bargraph", Kind: "subkey", Flags: []string{"-s"}, Match: lineRegex,
			Extract: [][]part{tpl(g(1)), tpl(g(2))}, Corpora: all, HasCSV: true},
		{Name: "analyze", Cmd: "analyze", Kind: "numerical", Match: lineRegex,
			Extract: [][]part{tpl(g(3))}, Corpora: all},
		{Name: "analyze-x", Cmd: "analyze", Kind: "numerical", Flags: []string{"-x", "-q", "50", "-q", "90"}, Match: lineRegex,
			Extract: [][]part{tpl(g(3))}, Corpora: all},
		{Name: "reduce-group", Cmd: "reduce", Kind: "accum", Match: lineRegex, Groups: []int{1},
			Accs: []accSpec{{"s", "sum", 3, ""}, {"n", "count", 0, ""}, {"mx", "max", 3, "-1000"}, {"mn", "min", 3, "1000"}}, Corpora: clean, HasCSV: true},
		{Name: "reduce-2groups", Cmd: "reduce", Kind: "accum", Match: lineRegex, Groups: []int{2, 1},
			Accs: []accSpec{{"s", "sum", 3, ""}, {"n", "count", 0, ""}}, Corpora: clean, HasCSV: true},
		{Name: "reduce-nogroup", Cmd: "reduce", Kind: "accum", Match: lineRegex,
			Accs: []accSpec{{"total", "sum", 3, ""}, {"n", "count", 0, ""}, {"mx", "max", 3, "-1000"}}, Corpora: clean, HasCSV: true},
		{Name: "reduce-ordered", Cmd: "reduce", Kind: "accum", Match: lineRegex, Groups: []int{2},
			Accs: []accSpec{{"last", "last", 1, ""}, {"cat", "cat", 3, "^"}}, OrderSensitive: true, Corpora: clean, HasCSV: true},
	}
}

// args renders the command line of the program (without tuning flags, output
// flags and inputs).
func (p *Program) args() []string {
	a := []string{p.Cmd}
	a = append(a, p.Flags...)
	a = append(a, "-m", p.Match)
	for _, e := range p.Extract {
		a = append(a, "-e", rareSyntax(e))
	}
	if p.IgnGroup > 0 {
		a = append(a, "-i", fmt.Sprintf("{eq {%d} %s}", p.IgnGroup, p.IgnEq))
	}
	for _, gi := range p.Groups {
		a = append(a, "-g", fmt.Sprintf("g%d={%d}", gi, gi))
	}
	for _, ac := range p.Accs {
		a = append(a, "-a", ac.rare())
	}
	return a
}

// ---------------------------------------------------------------- corpora

var recordPool = []string{
	0: "a,x|r 1|1",
	1: ` b "q"|r2|2`, // leading space and quotes
	2: "a,x|r2|40",
	3: " lead|r 1|-3",
	4: "c\rd|7|5",
	5: "a,x|r 1|2",
	6: ` b "q"|10|1`,
	7: "plain|7|x", // unparsable increment / number
	8: "no match here",
	9: "nor, \"here\"",
	// spellings of decimal integers (zero-padded, signed): base-10 integers all the same
	10: "pad|r 1|010",
	11: "pad|r2|-007",
	12: "a,x|r2|+09",
	// an empty second field: the empty string as a row / sub-key / column
	13: "a,x||3",
	14: ` b "q"||1`,
}

type Corpus struct {
	Name  string
	Recs  []int
	Gzip  bool // files alternate gzip / plain and the run uses -z
	Small bool // corpus without matches: two lines are enough
}

var corpora = map[string]*Corpus{
	"A": {Name: "A", Recs: []int{0, 1, 2, 3, 5}},
	"B": {Name: "B", Recs: []int{4, 5, 0, 6, 2}, Gzip: true},
	"C": {Name: "C", Recs: []int{7, 0, 8, 5, 1}},
	"D": {Name: "D", Recs: []int{8, 9}, Small: true},
	"E": {Name: "E", Recs: []int{10, 0, 11, 12, 2}},
	"F": {Name: "F", Recs: []int{13, 0, 14, 5, 13}},
}

func (c *Corpus) lines(n int) []string {
	if c.Small && n > 2 {
		n = 2
	}
	var out []string
	for i := 0; i < n && i < len(c.Recs); i++ {
		out = append(out, recordPool[c.Recs[i]])
	}
	return out
}

// ---------------------------------------------------------------- fold

type tableRef struct {
	cols  map[string]bool
	rows  map[string]bool
	cells map[[2]string]int64 // (row, col)
}

// Ref is the result of the sequential reference aggregation.
type Ref struct {
	read, matched, ignored, parseErrs int
	counter                           map[string]int64
	table                             *tableRef
	subKeys                           map[string]bool
	sub                               map[string]map[string]int64
	values                            []float64
	groupsOrder                       []string            // accum: group keys (joined with \x00)
	accum                             map[string][]string // group key -> data columns
}

// fold is the reference: "an independent sequential aggregation of the
// extracted keys and increments". lines are in the order in which a single
// reader and a single worker deliver them (file argument order).
func fold(p *Program, lines []string) *Ref {
	re := regexp.MustCompile(p.Match)
	r := &Ref{counter: map[string]int64{}, table: &tableRef{cols: map[string]bool{}, rows: map[string]bool{}, cells: map[[2]string]int64{}},
		subKeys: map[string]bool{}, sub: map[string]map[string]int64{}, accum: map[string][]string{}}
	cats := map[string]*strings.Builder{} // cat accumulators (group key, accumulator index), joined at the end
	defer func() {
		for k, sb := range cats {
			i := strings.LastIndexByte(k, 1)
			n, _ := strconv.Atoi(k[i+1:])
			r.accum[k[:i]][n] = sb.String()
		}
	}()
	for _, l := range lines {
		r.read++
		m := re.FindStringSubmatch(l)
		if m == nil {
			continue
		}
		if p.IgnGroup > 0 && m[p.IgnGroup] == p.IgnEq {
			r.ignored++
			continue
		}
		var ex []string
		for _, e := range p.Extract {
			ex = append(ex, evalTpl(e, m))
		}
		if p.Kind != "accum" && len(ex) == 1 && ex[0] == "" {
			r.ignored++ // an empty key is not a match
			continue
		}
		r.matched++
		inc := func(i int) (int64, bool) {
			if len(ex) <= i {
				return 1, true
			}
			v, err := strconv.ParseInt(ex[i], 10, 64)
			if err != nil {
				r.parseErrs++
				return 0, false
			}
			return v, true
		}
		switch p.Kind {
		case "counter":
			if v, ok := inc(1); ok {
				r.counter[ex[0]] += v
			}
		case "table":
			if v, ok := inc(2); ok {
				r.table.cols[ex[0]] = true
				r.table.rows[ex[1]] = true
				r.table.cells[[2]string{ex[1], ex[0]}] += v
			}
		case "subkey":
			if v, ok := inc(2); ok {
				r.subKeys[ex[1]] = true
				if r.sub[ex[0]] == nil {
					r.sub[ex[0]] = map[string]int64{}
				}
				r.sub[ex[0]][ex[1]] += v
			}
		case "numerical":
			v, err := strconv.ParseFloat(ex[0], 64)
			if err != nil {
				r.parseErrs++
			} else {
				r.values = append(r.values, v)
			}
		case "accum":
			var kp []string
			for _, gi := range p.Groups {
				kp = append(kp, m[gi])
			}
			key := strings.Join(kp, "\x00")
			row, ok := r.accum[key]
			if !ok {
				row = make([]string, len(p.Accs))
				for i, a := range p.Accs {
					row[i] = a.Initial
					if a.Initial == "" {
						row[i] = "0"
					}
				}
				r.groupsOrder = append(r.groupsOrder, key)
			}
			for i, a := range p.Accs {
				cur := row[i]
				val := m[a.Group]
				ci, _ := strconv.ParseInt(cur, 10, 64)
				vi, _ := strconv.ParseInt(val, 10, 64)
				switch a.Op {
				case "sum":
					row[i] = strconv.FormatInt(ci+vi, 10)
				case "count":
					row[i] = strconv.FormatInt(ci+1, 10)
				case "max":
					if vi > ci {
						ci = vi
					}
					row[i] = strconv.FormatInt(ci, 10)
				case "min":
					if vi < ci {
						ci = vi
					}
					row[i] = strconv.FormatInt(ci, 10)
				case "last":
					row[i] = val
				case "cat":
					// (linear: the text is joined once, at the end)
					ck := key + "\x01" + strconv.Itoa(i)
					sb := cats[ck]
					if sb == nil {
						sb = &strings.Builder{}
						sb.WriteString(cur)
						cats[ck] = sb
					}
					sb.WriteString(val)
					sb.WriteString(";")
				}
			}
			r.accum[key] = row
		}
	}
	return r
}

// exitStatus: "2 if the aggregator saw unparsable increments, 1 if nothing
// matched, and 0 otherwise" (no input fails in this harness).
func (r *Ref) exitStatus() int {
	if r.parseErrs > 0 {
		return 2
	}
	if r.matched == 0 {
		return 1
	}
	return 0
}

// summaryInts is the sequence of integers of the summary line: matched, read,
// the command's group/row/column counts, then ignored and error counts when
// they are non-zero.
func (r *Ref) summaryInts(p *Program) []int64 {
	out := []int64{int64(r.matched), int64(r.read)}
	switch {
	case p.Cmd == "histogram":
		out = append(out, int64(len(r.counter)))
	case p.Kind == "table":
		out = append(out, int64(len(r.table.rows)), int64(len(r.table.cols)))
	case p.Kind == "accum" && len(p.Groups) > 0:
		out = append(out, int64(len(r.accum)), int64(len(p.Groups)+len(p.Accs)))
	}
	if r.ignored > 0 {
		out = append(out, int64(r.ignored))
	}
	if r.parseErrs > 0 {
		out = append(out, int64(r.parseErrs))
	}
	return out
}

// ---------------------------------------------------------------- analyze

// round4ok reports whether x is far from a rounding boundary of the
// 4-decimal display.
func round4ok(x float64) bool {
	y := math.Abs(x) * 1e4
	f := y - math.Floor(y)
	return math.Abs(f-0.5) > 1e-5
}

func fmt4(x float64) string { return strconv.FormatFloat(x, 'f', 4, 64) }

type figure struct {
	accept []string // accepted 4-decimal renderings
}

// analyzeFigures computes, for the values in r, the accepted renderings of
// every figure `analyze` prints. Where the statement does not fix a
// definition every common one is accepted.
func analyzeFigures(vals []float64, quantiles []float64) (map[string]figure, bool) {
	return analyzeFiguresSlack(vals, quantiles, false)
}

// analyzeFiguresSlack: with slack, a figure closer to a rounding boundary of
// the display than floating-point summation order can move it (2e-11 relative
// + 1e-9) is accepted with either rounding (size families: thousands of
// values, where the distance cannot be guaranteed up front).
func analyzeFiguresSlack(vals []float64, quantiles []float64, slack bool) (map[string]figure, bool) {
	out := map[string]figure{}
	n := len(vals)
	if n == 0 {
		return out, true
	}
	admitted := true
	add := func(name string, xs ...float64) {
		var f figure
		for _, x := range xs {
			if !round4ok(x) {
				admitted = false
			}
			f.accept = append(f.accept, fmt4(x))
			if slack {
				d := math.Abs(x)*2e-11 + 1e-9
				for _, y := range []float64{x - d, x + d} {
					if fmt4(y) != fmt4(x) {
						f.accept = append(f.accept, fmt4(y))
					}
				}
			}
		}
		out[name] = f
	}
	sum := 0.0
	for _, v := range vals {
		sum += v
	}
	mean := sum / float64(n)
	ss := 0.0
	for _, v := range vals {
		ss += (v - mean) * (v - mean)
	}
	s := append([]float64{}, vals...)
	sort.Float64s(s)
	add("Mean", mean)
	if n > 1 {
		add("StdDev", math.Sqrt(ss/float64(n-1)), math.Sqrt(ss/float64(n)))
	} else {
		add("StdDev", 0)
	}
	add("Min", s[0])
	add("Max", s[n-1])
	if n%2 == 1 {
		add("Median", s[n/2])
	} else {
		add("Median", s[n/2-1], s[n/2], (s[n/2-1]+s[n/2])/2)
	}
	// mode: any value of maximal frequency
	freq := map[float64]int{}
	best := 0
	for _, v := range s {
		freq[v]++
		if freq[v] > best {
			best = freq[v]
		}
	}
	var modes []float64
	for _, v := range s {
		if freq[v] == best {
			modes = append(modes, v)
		}
	}
	add("Mode", modes...)
	for _, q := range quantiles {
		p := q / 100
		// nearest-rank variants: every sample between rank ceil(np)-1 and floor(np)
		lo := int(math.Ceil(float64(n)*p)) - 1
		hi := int(math.Floor(float64(n) * p))
		if lo > hi {
			lo, hi = hi, lo
		}
		if lo < 0 {
			lo = 0
		}
		if hi > n-1 {
			hi = n - 1
		}
		add(fmt.Sprintf("P%02.4f", q), s[lo:hi+1]...)
	}
	return out, admitted
}
