// Harness cligrid decides the configuration/input-enumeration part of C03 on
// the REAL rare binary ($RARE_BIN): for every aggregator command with a few
// generated match/extract expressions, over small generated corpora, the
// final result (--csv export, --snapshot stdout, exit status) must be
// identical for every combination of --workers x --batch x --batch-buffer x
// --readers x GOMAXPROCS x every order of the file arguments x every way of
// dividing the same lines among 1..3 files, and must equal an independent
// sequential reference aggregation (reference.go), with the CSV parsed by an
// own RFC 4180 parser. size.go adds the SIZE families: the same oracle on
// corpora of up to 65537 lines, lines of up to 512 KiB, 5001 distinct keys,
// 40 files and increments up to MaxInt64, with a handful of tunings each.
package main

import (
	"bytes"
	"compress/gzip"
	"encoding/json"
	"fmt"
	"os"
	"path/filepath"
	"regexp"
	"sort"
	"strconv"
	"strings"
	"time"

	"verif/runner"
)

type Tuning struct {
	Workers, Batch, Buffer, Readers, Gomaxprocs int
}

// Case is one replayable execution (together with the baseline it is compared with).
type Case struct {
	Program string `json:"program"`
	Corpus  string `json:"corpus"`
	N       int    `json:"n"`      // number of corpus lines
	Assign  []int  `json:"assign"` // line i goes to file Assign[i]; files are given in the order f0 f1 f2
	Input   string `json:"input"`  // files | dash | none (standard input)
	Out     string `json:"out"`    // snapshot+csvfile | csvstdout
	Tuning  Tuning `json:"tuning"`
	Cmdline string `json:"cmdline,omitempty"`
	// size families only (size.go): the corpus is sizedLines(Family, Shape,
	// Size) divided among Files files (Split: chunks | rr); N and Assign are unused
	Family string `json:"family,omitempty"`
	Shape  string `json:"shape,omitempty"`
	Size   int64  `json:"size,omitempty"`
	Files  int    `json:"files,omitempty"`
	Split  string `json:"split,omitempty"`
}

var (
	workersSet = []int{1, 2, 4}
	batchSet   = []int{1, 2, 1000}
	bufferSet  = []int{1, 4}
	readersSet = []int{1, 3}
	gmpSet     = []int{1, 4}
)

func tunings(p *Program) []Tuning {
	var out []Tuning
	for _, w := range workersSet {
		for _, b := range batchSet {
			for _, bb := range bufferSet {
				for _, r := range readersSet {
					for _, g := range gmpSet {
						if p.OrderSensitive && (w != 1 || r != 1) {
							// "any accumulator with one reader and one worker"
							continue
						}
						out = append(out, Tuning{w, b, bb, r, g})
					}
				}
			}
		}
	}
	return out
}

// assignments enumerates every surjection of n lines onto k = 1..maxFiles
// ordered files: every way of dividing the lines among the files (keeping
// their relative order inside a file) in every order of the file arguments.
func assignments(n, maxFiles int) [][]int {
	var out [][]int
	for k := 1; k <= maxFiles && k <= n; k++ {
		a := make([]int, n)
		var rec func(i int)
		rec = func(i int) {
			if i == n {
				seen := make([]bool, k)
				for _, x := range a {
					seen[x] = true
				}
				for _, s := range seen {
					if !s {
						return
					}
				}
				out = append(out, append([]int{}, a...))
				return
			}
			for f := 0; f < k; f++ {
				a[i] = f
				rec(i + 1)
			}
		}
		rec(0)
	}
	return out
}

type env struct {
	w     *runner.W
	bin   string
	tmp   string
	home  string
	seq   int
	hangs int
	progs map[string]*Program
	base  map[string]*observation // baseline per program/corpus/n (order-insensitive programs)
}

func newEnv(w *runner.W) *env {
	bin := os.Getenv("RARE_BIN")
	if bin == "" {
		panic("RARE_BIN is not set (harness must be registered with mode cli in harness/MAP)")
	}
	if _, err := os.Stat(bin); err != nil {
		panic(fmt.Sprintf("RARE_BIN=%s: %v", bin, err))
	}
	tmp, err := os.MkdirTemp("", "verif-cligrid-")
	if err != nil {
		panic(err)
	}
	home := filepath.Join(tmp, "home")
	os.MkdirAll(home, 0o755)
	e := &env{w: w, bin: bin, tmp: tmp, home: home, progs: map[string]*Program{}, base: map[string]*observation{}}
	for _, p := range programs() {
		e.progs[p.Name] = p
	}
	for _, p := range sizePrograms() {
		e.progs[p.Name] = p
	}
	return e
}

func (e *env) close() { os.RemoveAll(e.tmp) }

func gz(b []byte) []byte {
	var buf bytes.Buffer
	zw := gzip.NewWriter(&buf)
	zw.Write(b)
	zw.Close()
	return buf.Bytes()
}

// layout writes the corpus lines into files according to assign and returns
// the file arguments and, per file, its lines.
func (e *env) layout(c *Corpus, lines []string, assign []int) (dir string, files []string, perFile [][]string) {
	e.seq++
	dir = filepath.Join(e.tmp, fmt.Sprintf("c%d", e.seq))
	if err := os.MkdirAll(dir, 0o755); err != nil {
		panic(err)
	}
	k := 0
	for _, a := range assign {
		if a+1 > k {
			k = a + 1
		}
	}
	perFile = make([][]string, k)
	for i, a := range assign {
		perFile[a] = append(perFile[a], lines[i])
	}
	for f := 0; f < k; f++ {
		var b bytes.Buffer
		for _, l := range perFile[f] {
			b.WriteString(l)
			b.WriteByte('\n')
		}
		name := fmt.Sprintf("f%d.log", f)
		data := b.Bytes()
		if c.Gzip && f%2 == 0 {
			name += ".gz"
			data = gz(data)
		}
		if err := os.WriteFile(filepath.Join(dir, name), data, 0o644); err != nil {
			panic(err)
		}
		files = append(files, name)
	}
	os.WriteFile(filepath.Join(dir, "stdin.sentinel"), []byte("SENTINEL|s|1000000\n"), 0o644)
	return
}

// observation is the final result of one run.
type observation struct {
	exit     int
	csv      string // csv export bytes
	body     string // snapshot stdout up to and including the summary line
	norm     string // body with runs of spaces collapsed (what is compared across configurations)
	bytes    string // total read bytes shown in the status line
	statusOK bool
	cmdline  string
}

var statusRe = regexp.MustCompile(`^(?:\[(\d+)/(\d+)\] )?(\d+) \([^)]*/s\) (?:\| .*)?$`)

func (e *env) run(p *Program, c *Corpus, dir string, files []string, cs Case) (*observation, runResult) {
	args := []string{"--nocolor", "--noformat", "--nounicode"}
	args = append(args, p.args()...)
	t := cs.Tuning
	args = append(args, "--workers", strconv.Itoa(t.Workers), "--batch", strconv.Itoa(t.Batch), "--batch-buffer", strconv.Itoa(t.Buffer), "--readers", strconv.Itoa(t.Readers))
	csvPath := filepath.Join(dir, "out.csv")
	os.Remove(csvPath)
	switch cs.Out {
	case "csvstdout":
		args = append(args, "--csv", "-")
	default:
		args = append(args, "--snapshot")
		if p.HasCSV {
			args = append(args, "--csv", "out.csv")
		}
	}
	stdin := "stdin.sentinel"
	switch cs.Input {
	case "files":
		if c.Gzip {
			args = append(args, "-z")
		}
		args = append(args, files...)
	case "dash":
		args = append(args, "-")
		stdin = files[0]
	case "none":
		stdin = files[0]
	}
	res := runRare(e.bin, dir, e.home, args, filepath.Join(dir, stdin), t.Gomaxprocs)
	e.w.Add("process_runs", 1)
	o := &observation{exit: res.exit, cmdline: fmt.Sprintf("GOMAXPROCS=%d rare %s < %s", t.Gomaxprocs, shellJoin(args), stdin)}
	if cs.Out == "csvstdout" {
		o.csv = res.stdout
		return o, res
	}
	if p.HasCSV {
		b, err := os.ReadFile(csvPath)
		if err == nil {
			o.csv = string(b)
		} else {
			o.csv = "<csv not written: " + err.Error() + ">"
		}
	}
	// split the snapshot into body+summary and the status line
	lines := strings.Split(res.stdout, "\n")
	si := -1
	for i, l := range lines {
		if strings.HasPrefix(l, "Matched: ") {
			si = i
		}
	}
	if si >= 0 {
		if p.Cmd == "heatmap" && si >= 2 {
			// the indentation of the legend and the column-header line depends
			// on whether the 100 ms ticker rendered before the final render
			// (known finding C03/heatmap/snapshot-differs/indentation-only of
			// the schedule-controlled harness): timing, so not compared here
			lines[0] = strings.TrimLeft(lines[0], " ")
			lines[1] = strings.TrimLeft(lines[1], " ")
		}
		o.body = strings.Join(lines[:si+1], "\n")
		o.norm = normalizeSpaces(lines[:si+1])
		rest := lines[si+1:]
		// the status line (progress of the readers) follows the summary
		if len(rest) >= 1 {
			if m := statusRe.FindStringSubmatch(rest[0]); m != nil {
				o.statusOK = true
				o.bytes = m[3]
				if m[1] != "" {
					done, _ := strconv.Atoi(m[1])
					total, _ := strconv.Atoi(m[2])
					// the number of sources is the number of file arguments; the
					// "done" counter may lag (see FINDINGS: excluded, timing)
					if total != len(files) || done > total {
						o.statusOK = false
					}
				}
			}
			for _, l := range rest[1:] {
				if l != "" {
					o.statusOK = false
				}
			}
		}
	} else {
		o.body = res.stdout
	}
	return o, res
}

var spacesRe = regexp.MustCompile(` +`)

// normalizeSpaces collapses runs of spaces and drops trailing spaces: the
// table renderers pad a column to the widest cell they have EVER written in
// that position, so the padding of the final snapshot depends on whether the
// 100 ms ticker rendered an intermediate state (timing; see FINDINGS.md).
func normalizeSpaces(lines []string) string {
	out := make([]string, len(lines))
	for i, l := range lines {
		out[i] = strings.TrimRight(spacesRe.ReplaceAllString(l, " "), " ")
	}
	return strings.Join(out, "\n")
}

func worker(w *runner.W) {
	e := newEnv(w)
	defer e.close()
	n := 3
	if !w.Quick() {
		n = 4
	}
	var unit int64
	type job struct {
		p *Program
		c *Corpus
		n int
	}
	var jobs []job
	only := w.Param("only", "") // debugging aid: -p only=<program>
	for _, p := range programs() {
		if only != "" && p.Name != only {
			continue
		}
		for _, cn := range p.Corpora {
			jobs = append(jobs, job{p, corpora[cn], n})
		}
	}
	if !w.Quick() {
		// five lines of corpus A for every program
		for _, p := range programs() {
			if only != "" && p.Name != only {
				continue
			}
			jobs = append(jobs, job{p, corpora["A"], 5})
		}
	}
	if only == "size" { // debugging aid: -p only=size runs the size families alone
		jobs = nil
	}
	onlyFam := w.Param("fam", "") // debugging aid: -p fam=<family>
	for _, u := range sizeUnits(w.Quick()) {
		if (only != "" && only != "size" && u.p.Name != only) || (onlyFam != "" && u.fam != onlyFam) {
			continue
		}
		unit++
		if !w.Owns(unit) {
			continue
		}
		if w.Expired() {
			return
		}
		if e.hangs >= 3 {
			w.Cap("enumeration stopped after 3 hanging processes in one worker")
			return
		}
		e.runSizeUnit(u)
	}
	for _, j := range jobs {
		lines := j.c.lines(j.n)
		for _, assign := range assignments(len(lines), 3) {
			unit++
			if !w.Owns(unit) {
				continue
			}
			if w.Expired() {
				return
			}
			if e.hangs >= 3 {
				w.Cap("enumeration stopped after 3 hanging processes in one worker")
				return
			}
			e.runUnit(j.p, j.c, len(lines), assign)
		}
	}
}

func maxOf(a []int) int {
	m := 0
	for _, x := range a {
		if x > m {
			m = x
		}
	}
	return m
}

// runUnit runs every tuning (and, for the one-file layout, the standard-input
// and csv-to-stdout variants) of one program/corpus/layout.
func (e *env) runUnit(p *Program, c *Corpus, n int, assign []int) {
	lines := c.lines(n)
	dir, files, perFile := e.layout(c, lines, assign)
	defer os.RemoveAll(dir)
	// the order in which one reader and one worker deliver the lines
	var seq []string
	for _, fl := range perFile {
		seq = append(seq, fl...)
	}
	ref := fold(p, seq)

	var base *observation
	if !p.OrderSensitive {
		base = e.baseline(p, c, n)
	}
	type variant struct{ input, out string }
	vars := []variant{{"files", "snapshot+csvfile"}}
	if maxOf(assign) == 0 {
		if !c.Gzip {
			vars = append(vars, variant{"dash", "snapshot+csvfile"}, variant{"none", "snapshot+csvfile"})
		}
		if p.HasCSV {
			vars = append(vars, variant{"files", "csvstdout"})
		}
	}
	for _, v := range vars {
		for _, t := range tunings(p) {
			cs := Case{Program: p.Name, Corpus: c.Name, N: n, Assign: assign, Input: v.input, Out: v.out, Tuning: t}
			e.w.SetCase(func() any { return cs })
			o := e.check(p, c, dir, files, cs, ref, base)
			if p.OrderSensitive && base == nil && o != nil && v.out == "snapshot+csvfile" {
				base = o // identity across the tunings of this layout
			}
		}
	}
}

// baseline: one file, one worker, one reader, GOMAXPROCS 1.
func (e *env) baseline(p *Program, c *Corpus, n int) *observation {
	key := fmt.Sprintf("%s/%s/%d", p.Name, c.Name, n)
	if b, ok := e.base[key]; ok {
		return b
	}
	lines := c.lines(n)
	assign := make([]int, len(lines))
	dir, files, _ := e.layout(c, lines, assign)
	defer os.RemoveAll(dir)
	cs := Case{Program: p.Name, Corpus: c.Name, N: n, Assign: assign, Input: "files", Out: "snapshot+csvfile", Tuning: Tuning{1, 1000, 4, 1, 1}}
	o, res := e.run(p, c, dir, files, cs)
	if res.hang || res.startErr != nil {
		if res.startErr != nil {
			panic(res.startErr)
		}
		e.base[key] = nil
		return nil
	}
	e.w.Add("baseline_runs", 1)
	if d := e.w.Param("dump", ""); d != "" && e.w.Shard == 0 { // debugging aid: -p dump=<file>
		if f, err := os.OpenFile(d, os.O_APPEND|os.O_CREATE|os.O_WRONLY, 0o644); err == nil {
			fmt.Fprintf(f, "## %s\n%s\nexit=%d\n%s\n--csv--\n%s\n", key, o.cmdline, o.exit, res.stdout, o.csv)
			f.Close()
		}
	}
	e.base[key] = o
	return o
}

func clip(s string, n int) string {
	if len(s) > n {
		return s[:n] + "…"
	}
	return s
}

// check runs one case and applies the oracle. Returns the observation when
// the run completed.
func (e *env) check(p *Program, c *Corpus, dir string, files []string, cs Case, ref *Ref, base *observation) *observation {
	w := e.w
	o, res := e.run(p, c, dir, files, cs)
	cs.Cmdline = o.cmdline
	pre := "C03/" + p.Name + "/"
	if cs.Family != "" {
		pre += cs.Family + "-" + sizeClass(cs.Family, cs.Size) + "/"
	}
	bad := false
	viol := func(sig, msg string) {
		bad = true
		var fs []string
		for _, f := range files {
			b, _ := os.ReadFile(filepath.Join(dir, f))
			if strings.HasSuffix(f, ".gz") {
				fs = append(fs, fmt.Sprintf("%s=gzip(%d bytes)", f, len(b)))
			} else if len(b) > 200 {
				fs = append(fs, fmt.Sprintf("%s=(%d bytes, %d lines) %q...", f, len(b), bytes.Count(b, []byte("\n")), b[:60]))
			} else {
				fs = append(fs, fmt.Sprintf("%s=%q", f, b))
			}
		}
		detail := fmt.Sprintf("%s\ncmd: %s\nfiles: %s\nexit=%d\ncsv=%q\nstdout=%q\nstderr=%q", msg, o.cmdline, strings.Join(fs, " "), res.exit, clip(o.csv, 500), clip(res.stdout, 700), clip(res.stderr, 400))
		w.Violation(sig, detail, cs)
	}
	if res.startErr != nil {
		panic(fmt.Sprintf("cannot run %s: %v", e.bin, res.startErr))
	}
	if res.hang {
		w.Eval(false)
		e.hangs++
		viol(pre+"hang", "the process did not exit within 60 s")
		return nil
	}
	if strings.Contains(res.stderr, "panic:") || strings.Contains(res.stderr, "goroutine 1 [") || res.signaled {
		w.Eval(true)
		viol(pre+"crash", "the process crashed")
		return nil
	}
	w.Eval(ref.matched > 0)
	// size families: one signature per run, the first failing clause (a broad
	// defect otherwise files programs x size classes x clauses signatures)
	first := func() bool { return cs.Family == "" || !bad }

	// exit status
	if want := ref.exitStatus(); res.exit != want {
		viol(fmt.Sprintf("%sexit/want%d-got%d", pre, want, res.exit), fmt.Sprintf("exit status %d, reference %d (matched=%d parseErrors=%d)", res.exit, want, ref.matched, ref.parseErrs))
	}

	// csv against the reference
	if p.HasCSV && first() {
		if sig, msg := checkCSV(p, ref, o.csv); sig != "" {
			viol(pre+"csv/"+sig, msg)
		}
	}
	// snapshot against the reference
	if cs.Out != "csvstdout" {
		snap := checkSnapshot
		if p.Sized {
			snap = checkSnapshotSized
		}
		if sig, msg := snap(p, ref, o); sig != "" && first() {
			viol(pre+"snapshot/"+sig, msg)
		}
		if !o.statusOK && first() {
			viol(pre+"snapshot/status-line", "the status line after the summary is not `[done/sources] bytes (rate/s) [| active]` with sources = number of file arguments")
		}
	}

	// identity with the baseline configuration
	if base != nil && first() {
		if o.exit != base.exit {
			viol(pre+"differs/exit-status", fmt.Sprintf("exit status %d, but %d for: %s", o.exit, base.exit, base.cmdline))
		}
		if p.HasCSV && o.csv != base.csv && first() {
			viol(pre+"differs/csv", fmt.Sprintf("csv export differs from the one of: %s\nthis: %q\nthat: %q", base.cmdline, clip(o.csv, 400), clip(base.csv, 400)))
		}
		if cs.Out != "csvstdout" {
			if o.norm != base.norm && first() {
				viol(pre+"differs/snapshot", fmt.Sprintf("snapshot differs (beyond column padding) from the one of: %s\nthis: %q\nthat: %q", base.cmdline, clip(o.body, 500), clip(base.body, 500)))
			}
			if o.body != base.body {
				w.Add("snapshots_differing_in_padding_only", 1)
			}
			if o.bytes != base.bytes && first() {
				viol(pre+"differs/read-bytes", fmt.Sprintf("status line reports %s bytes read, but %s for: %s", o.bytes, base.bytes, base.cmdline))
			}
		}
	}
	if !bad {
		w.Outcome(p.Name, fmt.Sprint(o.exit), o.csv, o.norm)
		if w.WantSample() && len(files) >= 2 && cs.Tuning.Workers > 1 && ref.matched > 1 {
			w.Sample(cs)
		}
	}
	return o
}

func setOf(m map[string]bool) []string {
	var out []string
	for k := range m {
		out = append(out, k)
	}
	sort.Strings(out)
	return out
}

// checkCSV: "the CSV export parses (RFC 4180) back to exactly the aggregated
// keys and counts whatever characters the keys contain".
func checkCSV(p *Program, ref *Ref, text string) (sig, msg string) {
	recs, err := parseCSV(text)
	if err != nil {
		return "not-rfc4180", "the export is not RFC 4180: " + err.Error()
	}
	if len(recs) == 0 {
		return "empty", "the export has no header"
	}
	hdr := recs[0]
	rows := recs[1:]
	for i, r := range rows {
		if len(r) != len(hdr) {
			return "ragged", fmt.Sprintf("record %d has %d fields, the header %d", i+2, len(r), len(hdr))
		}
	}
	num := func(s string) (int64, bool) {
		v, err := strconv.ParseInt(s, 10, 64)
		return v, err == nil
	}
	switch p.Kind {
	case "counter":
		if len(hdr) != 2 {
			return "header", fmt.Sprintf("header %q", hdr)
		}
		got := map[string]int64{}
		for _, r := range rows {
			v, ok := num(r[1])
			if !ok {
				return "count-not-integer", fmt.Sprintf("row %q", r)
			}
			if _, dup := got[r[0]]; dup {
				return "duplicate-key", fmt.Sprintf("key %q twice", r[0])
			}
			got[r[0]] = v
		}
		return cmpMaps("key", got, ref.counter)
	case "table", "subkey":
		// first header field names the key column, the rest are column keys
		wantCols := ref.table.cols
		want := map[string]int64{}
		wantRows := ref.table.rows
		if p.Kind == "table" {
			for k, v := range ref.table.cells {
				want[k[0]+"\x00"+k[1]] = v
			}
		} else {
			wantCols = ref.subKeys
			wantRows = map[string]bool{}
			for k, m := range ref.sub {
				wantRows[k] = true
				for sk, v := range m {
					want[k+"\x00"+sk] = v
				}
			}
		}
		gotCols := map[string]bool{}
		for _, cn := range hdr[1:] {
			if gotCols[cn] {
				return "duplicate-column", fmt.Sprintf("column %q twice", cn)
			}
			gotCols[cn] = true
		}
		if p.TrimCols > 0 && len(wantCols) > p.TrimCols && len(gotCols) == p.TrimCols {
			if sig, msg := trimmedExport(p, hdr, rows, wantCols, want); sig != "" {
				return sig, msg
			}
		}
		for _, cn := range setOf(wantCols) {
			if !gotCols[cn] {
				return "column-missing", fmt.Sprintf("column %q of the reference aggregation is not exported; exported columns %q, reference columns %q", cn, hdr[1:], setOf(wantCols))
			}
		}
		for _, cn := range hdr[1:] {
			if !wantCols[cn] {
				return "column-unexpected", fmt.Sprintf("exported column %q is not a key of the reference aggregation %q", cn, setOf(wantCols))
			}
		}
		gotRows := map[string]bool{}
		for _, r := range rows {
			if gotRows[r[0]] {
				return "duplicate-row", fmt.Sprintf("row %q twice", r[0])
			}
			gotRows[r[0]] = true
			for i, cell := range r[1:] {
				v, ok := num(cell)
				if !ok {
					return "count-not-integer", fmt.Sprintf("row %q", r)
				}
				if w := want[r[0]+"\x00"+hdr[i+1]]; v != w {
					return "count-mismatch", fmt.Sprintf("cell (%q,%q) exported %d, reference %d", r[0], hdr[i+1], v, w)
				}
			}
		}
		for _, rn := range setOf(wantRows) {
			if !gotRows[rn] {
				return "row-missing", fmt.Sprintf("row %q of the reference aggregation is not exported", rn)
			}
		}
		for rn := range gotRows {
			if !wantRows[rn] {
				return "row-unexpected", fmt.Sprintf("exported row %q is not a key of the reference aggregation", rn)
			}
		}
	case "accum":
		ng := len(p.Groups)
		if len(hdr) != ng+len(p.Accs) {
			return "header", fmt.Sprintf("header %q", hdr)
		}
		for i, gi := range p.Groups {
			if hdr[i] != fmt.Sprintf("g%d", gi) {
				return "header", fmt.Sprintf("header %q", hdr)
			}
		}
		for i, a := range p.Accs {
			if hdr[ng+i] != a.Name {
				return "header", fmt.Sprintf("header %q", hdr)
			}
		}
		got := map[string][]string{}
		for _, r := range rows {
			k := strings.Join(r[:ng], "\x00")
			if _, dup := got[k]; dup {
				return "duplicate-key", fmt.Sprintf("group %q twice", r[:ng])
			}
			got[k] = r[ng:]
		}
		for k, wv := range ref.accum {
			gv, ok := got[k]
			if !ok {
				return "key-missing", fmt.Sprintf("group %q of the reference aggregation is not exported", k)
			}
			for i := range wv {
				if gv[i] != wv[i] {
					return "value-mismatch", fmt.Sprintf("group %q accumulator %s exported %q, reference %q", k, p.Accs[i].Name, gv[i], wv[i])
				}
			}
		}
		for k := range got {
			if _, ok := ref.accum[k]; !ok {
				return "key-unexpected", fmt.Sprintf("exported group %q is not in the reference aggregation", k)
			}
		}
	}
	return "", ""
}

// trimmedExport recognises exactly one defect class: spark with fewer --cols
// than aggregated columns exports only --cols of the reference columns (with
// their correct cells, and only the rows that have a cell in them). Anything
// else falls through to the general signatures.
func trimmedExport(p *Program, hdr []string, rows [][]string, wantCols map[string]bool, want map[string]int64) (string, string) {
	for _, cn := range hdr[1:] {
		if !wantCols[cn] {
			return "", ""
		}
	}
	wantRows := map[string]bool{}
	for k := range want {
		rc := strings.SplitN(k, "\x00", 2)
		for _, cn := range hdr[1:] {
			if rc[1] == cn {
				wantRows[rc[0]] = true
			}
		}
	}
	seen := map[string]bool{}
	for _, r := range rows {
		if !wantRows[r[0]] || seen[r[0]] {
			return "", ""
		}
		seen[r[0]] = true
		for i, cell := range r[1:] {
			if cell != strconv.FormatInt(want[r[0]+"\x00"+hdr[i+1]], 10) {
				return "", ""
			}
		}
	}
	if len(seen) != len(wantRows) {
		return "", ""
	}
	return "columns-trimmed-to-cols", fmt.Sprintf("the export holds only %d of the %d aggregated columns (%q of %q) and only the rows with a cell in them: the table was trimmed to --cols %d before it was exported", len(hdr)-1, len(wantCols), hdr[1:], setOf(wantCols), p.TrimCols)
}

func cmpMaps(what string, got, want map[string]int64) (string, string) {
	var ks []string
	for k := range want {
		ks = append(ks, k)
	}
	sort.Strings(ks)
	for _, k := range ks {
		g, ok := got[k]
		if !ok {
			return what + "-missing", fmt.Sprintf("%s %q (reference count %d) is not exported", what, k, want[k])
		}
		if g != want[k] {
			return "count-mismatch", fmt.Sprintf("%s %q exported %d, reference %d", what, k, g, want[k])
		}
	}
	for k := range got {
		if _, ok := want[k]; !ok {
			return what + "-unexpected", fmt.Sprintf("exported %s %q is not in the reference aggregation", what, k)
		}
	}
	return "", ""
}

var intRe = regexp.MustCompile(`-?\d+`)

// checkSnapshot compares what the snapshot states about the aggregate with
// the reference. Layout is not prescribed by the statement (it belongs to
// C14); only the numbers and keys are compared.
func checkSnapshot(p *Program, ref *Ref, o *observation) (sig, msg string) {
	lines := strings.Split(o.body, "\n")
	if len(lines) == 0 || !strings.HasPrefix(lines[len(lines)-1], "Matched: ") {
		return "no-summary", "no summary line (Matched: ...) in the snapshot"
	}
	summary := lines[len(lines)-1]
	body := lines[:len(lines)-1]
	var got []int64
	for _, s := range intRe.FindAllString(summary, -1) {
		v, _ := strconv.ParseInt(s, 10, 64)
		got = append(got, v)
	}
	want := ref.summaryInts(p)
	if fmt.Sprint(got) != fmt.Sprint(want) {
		if p.TrimCols > 0 && len(got) == len(want) && len(want) >= 4 && got[0] == want[0] && got[1] == want[1] &&
			fmt.Sprint(got[4:]) == fmt.Sprint(want[4:]) && got[3] == int64(p.TrimCols) && want[3] > got[3] && got[2] <= want[2] {
			// only the row/column counts differ and the column count is --cols:
			// the same trimming as in the export
			return "summary-rows-cols-after-trim-to-cols", fmt.Sprintf("summary line %q counts %d rows and %d columns, the reference aggregation has %d rows and %d columns (table trimmed to --cols %d)", summary, got[2], got[3], want[2], want[3], p.TrimCols)
		}
		return "summary-counts", fmt.Sprintf("summary line %q carries the numbers %v, reference %v (matched, read, group/row/column counts, ignored, errors)", summary, got, want)
	}
	var nonEmpty []string
	for _, l := range body {
		if strings.TrimSpace(l) != "" {
			nonEmpty = append(nonEmpty, l)
		}
	}
	switch {
	case p.Cmd == "histogram":
		// one line per key: key, then the count as the next field
		// the histogram displays keys with a count of at least --atleast
		// (default 0): negative totals are exported but not displayed
		shown := 0
		for _, v := range ref.counter {
			if v >= 0 {
				shown++
			}
		}
		if len(nonEmpty) != shown {
			return "line-count", fmt.Sprintf("%d histogram lines, reference has %d keys with a count >= 0", len(nonEmpty), shown)
		}
		for k, v := range ref.counter {
			if v < 0 {
				continue
			}
			found := false
			for _, l := range nonEmpty {
				if strings.HasPrefix(l, k) {
					f := strings.Fields(l[len(k):])
					if len(f) >= 1 && f[0] == strconv.FormatInt(v, 10) && (len(l) == len(k) || l[len(k)] == ' ') {
						found = true
					}
				}
			}
			if !found {
				return "key-count", fmt.Sprintf("no histogram line shows key %q with count %d", k, v)
			}
		}
	case p.Cmd == "table":
		extra := 0
		for _, f := range p.Flags {
			if f == "-x" {
				extra = 1
			}
		}
		if len(ref.table.rows) > 0 && len(nonEmpty) != len(ref.table.rows)+1+extra {
			return "line-count", fmt.Sprintf("%d table lines, reference has %d rows", len(nonEmpty), len(ref.table.rows))
		}
		for rn := range ref.table.rows {
			var wantCells []string
			for cn := range ref.table.cols {
				wantCells = append(wantCells, strconv.FormatInt(ref.table.cells[[2]string{rn, cn}], 10))
			}
			sort.Strings(wantCells)
			found := false
			for _, l := range nonEmpty[1:] {
				if !strings.HasPrefix(l, rn) || (len(l) > len(rn) && l[len(rn)] != ' ') {
					continue
				}
				f := strings.Fields(l[len(rn):])
				if len(f) < len(wantCells) {
					continue
				}
				f = append([]string{}, f[:len(wantCells)]...)
				sort.Strings(f)
				if strings.Join(f, " ") == strings.Join(wantCells, " ") {
					found = true
				}
			}
			if !found {
				return "row-cells", fmt.Sprintf("no table line shows row %q with the cells %v (any column order)", rn, wantCells)
			}
		}
	case p.Kind == "table": // heatmap, spark: glyph rows; every row key starts a line
		for rn := range ref.table.rows {
			found := false
			for _, l := range nonEmpty {
				if strings.HasPrefix(l, rn) {
					found = true
				}
			}
			if !found && p.TrimCols == 0 {
				return "row-missing", fmt.Sprintf("no line starts with row key %q", rn)
			}
		}
	case p.Kind == "subkey":
		for k := range ref.sub {
			found := false
			for _, l := range nonEmpty {
				if strings.HasPrefix(l, k) {
					found = true
				}
			}
			if !found {
				return "key-missing", fmt.Sprintf("no bar line starts with key %q", k)
			}
		}
	case p.Kind == "numerical":
		return checkAnalyze(p, ref, nonEmpty)
	case p.Kind == "accum" && len(p.Groups) > 0:
		if len(nonEmpty) != len(ref.accum)+1 {
			return "line-count", fmt.Sprintf("%d table lines, reference has %d groups", len(nonEmpty), len(ref.accum))
		}
		for k, data := range ref.accum {
			parts := strings.Split(k, "\x00")
			found := false
			for _, l := range nonEmpty[1:] {
				if !strings.HasPrefix(l, parts[0]) {
					continue
				}
				// the data cells close the line, in accumulator order
				rest := l
				ok := true
				for i := len(data) - 1; i >= 0; i-- {
					rest = strings.TrimRight(rest, " ")
					if !strings.HasSuffix(rest, data[i]) {
						ok = false
						break
					}
					rest = rest[:len(rest)-len(data[i])]
				}
				if ok {
					for _, pt := range parts {
						if !strings.Contains(rest, pt) {
							ok = false
						}
					}
				}
				if ok {
					found = true
				}
			}
			if !found {
				return "group-values", fmt.Sprintf("no table line shows group %q with the values %q", parts, data)
			}
		}
	case p.Kind == "accum":
		data := ref.accum[""]
		if data == nil { // nothing matched: nothing to show
			return "", ""
		}
		for i, a := range p.Accs {
			found := false
			for _, l := range nonEmpty {
				if strings.HasPrefix(l, a.Name) && strings.HasSuffix(l, ": "+data[i]) {
					found = true
				}
			}
			if !found {
				return "value", fmt.Sprintf("no line shows accumulator %s with the value %q", a.Name, data[i])
			}
		}
	}
	return "", ""
}

func checkAnalyze(p *Program, ref *Ref, lines []string) (string, string) {
	var qs []float64
	extra := false
	for i, f := range p.Flags {
		if f == "-x" {
			extra = true
		}
		if f == "-q" {
			v, _ := strconv.ParseFloat(p.Flags[i+1], 64)
			qs = append(qs, v)
		}
	}
	got := map[string]string{}
	for _, l := range lines {
		if i := strings.Index(l, ":"); i > 0 {
			got[l[:i]] = strings.TrimSpace(l[i+1:])
		}
	}
	if got["Samples"] != strconv.Itoa(len(ref.values)) {
		return "samples", fmt.Sprintf("Samples: %q, reference %d", got["Samples"], len(ref.values))
	}
	if len(ref.values) == 0 {
		return "", "" // the statement does not say what is displayed for no samples
	}
	figs, _ := analyzeFiguresSlack(ref.values, qs, p.Sized)
	names := []string{"Mean", "StdDev", "Min", "Max"}
	if extra {
		names = append(names, "Median", "Mode")
		for _, q := range qs {
			names = append(names, fmt.Sprintf("P%02.4f", q))
		}
	}
	for _, nme := range names {
		f := figs[nme]
		ok := false
		for _, a := range f.accept {
			if got[nme] == a {
				ok = true
			}
		}
		if !ok {
			return "figure/" + strings.ToLower(strings.TrimRight(nme, ".0123456789")), fmt.Sprintf("%s: displayed %q, reference accepts %q for the values %v", nme, got[nme], f.accept, ref.values)
		}
	}
	return "", ""
}

func replay(w *runner.W, raw json.RawMessage) {
	var cs Case
	if err := json.Unmarshal(raw, &cs); err != nil {
		panic(err)
	}
	e := newEnv(w)
	defer e.close()
	p := e.progs[cs.Program]
	if cs.Family != "" {
		u := sizeUnit{cs.Family, cs.Shape, cs.Size, p}
		e.runSized(cs, e.sizeBase(u))
		return
	}
	c := corpora[cs.Corpus]
	if p == nil || c == nil {
		panic("unknown program or corpus in the replay file")
	}
	lines := c.lines(cs.N)
	dir, files, perFile := e.layout(c, lines, cs.Assign)
	var seq []string
	for _, fl := range perFile {
		seq = append(seq, fl...)
	}
	ref := fold(p, seq)
	var base *observation
	if !p.OrderSensitive {
		base = e.baseline(p, c, cs.N)
	} else {
		first := cs
		first.Tuning = tunings(p)[0]
		first.Out = "snapshot+csvfile"
		base, _ = e.run(p, c, dir, files, first)
	}
	e.check(p, c, dir, files, cs, ref, base)
}

// selfCheck verifies the admission rule for analyze: every figure of every
// corpus is far from a rounding boundary of the 4-decimal display.
func selfCheck() {
	for _, p := range programs() {
		if p.Kind != "numerical" {
			continue
		}
		for _, cn := range p.Corpora {
			for n := 1; n <= 5; n++ {
				ref := fold(p, corpora[cn].lines(n))
				if _, ok := analyzeFigures(ref.values, []float64{50, 90}); !ok {
					panic(fmt.Sprintf("corpus %s/%d: an analyze figure is within 1e-9 of a rounding boundary", cn, n))
				}
			}
		}
	}
}

func main() {
	selfCheck()
	runner.Main(&runner.Spec{
		Name:       "cligrid",
		Properties: []string{"C03"},
		Level:      "exploration",
		Rule: func(prop, tier string) string {
			var pn []string
			for _, p := range programs() {
				pn = append(pn, p.Name+"=`"+shellJoin(p.args())+"`")
			}
			n := "3"
			if tier == "thorough" {
				n = "4 (and 5 on corpus A)"
			}
			return sizeRule(tier) + "GRID: real rare binary, one process per case: programs {" + strings.Join(pn, "; ") + "} x corpora {A plain, B gzip/plain alternating with -z, C with an unparsable increment and a non-matching line, D without any match, E with zero-padded and signed increments (010, -007, +09), F with an empty second field (the empty string as row, column, sub-key or group)} of " + n +
				" lines `key|sub|number` (keys with comma, quote, CR, leading space) x every surjection of the lines onto 1..3 ordered files (every division x every argument order) x --workers {1,2,4} x --batch {1,2,1000} x --batch-buffer {1,4} x --readers {1,3} x GOMAXPROCS {1,4}; " +
				"the one-file layout additionally through standard input (`-` and no argument) and with --csv - ; the order-sensitive program reduce-ordered only with one reader and one worker. Every run: --snapshot stdout, --csv file, exit status compared with the reference fold and with the baseline configuration (csv and exit status byte for byte, snapshot modulo column padding) (one file, 1 worker, 1 reader, GOMAXPROCS 1). non-trivial = the reference has at least one match"
		},
		Assumptions: func(string) []string {
			return []string{
				"one OS schedule per configuration (the schedule-exhaustive part of C03 is the in-process vrt harness)",
				"the status line below the summary (reader progress `[done/sources] bytes (rate/s) | active files`) is progress information: the byte count and the number of sources are compared, the rate, the done counter and the active-file list are not (see FINDINGS.md: the done counter is updated after the reader signals completion, so its final value depends on timing)",
				"snapshot layout is not prescribed by C03 (C14 decides it): the numbers of the summary line, keys and counts are compared with the reference, the complete text across configurations with runs of spaces collapsed (column padding and the heatmap header indentation depend on whether the 100 ms ticker rendered an intermediate state: timing, decided by the schedule-controlled harness; runs differing in padding only are counted in snapshots_differing_in_padding_only)",
				"size families: the snapshot shows 5 histogram keys / 20 table rows of an aggregate of up to thousands; every displayed key or row is compared with the reference, the histogram additionally against the greatest counts (--sort value is the documented default), which rows a table shows is not compared; analyze figures closer to a rounding boundary of the 4-decimal display than 2e-11 relative + 1e-9 are accepted with either rounding",
				"analyze: where the statement does not fix a definition (sample/population deviation, median of an even count, mode ties, nearest-rank quantiles) every common variant is accepted; all figures are further than 1e-9 from a rounding boundary of the 4-decimal display",
			}
		},
		Worker:         worker,
		Replay:         replay,
		HangSeconds:    150,
		QuickBudget:    10 * time.Minute,
		ThoroughBudget: 30 * time.Minute,
	})
}
